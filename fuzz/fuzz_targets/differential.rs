#![no_main]
//! C02/C03/C12 on arbitrary accepted strings: the fuzzer's bytes are the choice tape of the
//! token-soup cases (table x sloppy string); flat / unfolded / re-folded / deep / conversion routes
//! must agree and a parsed flat expression must print its source.
use exmex_verif::props::{c02, c03, c12};
use exmex_verif::runner::Stats;
use libfuzzer_sys::fuzz_target;

fuzz_target!(|data: &[u8]| {
    let tape: Vec<u32> = data.chunks(4).map(|c| {
        let mut b = [0u8; 4];
        b[..c.len()].copy_from_slice(c);
        u32::from_le_bytes(b)
    }).collect();
    let mut st = Stats::default();
    st.frozen = true;
    for (name, f) in [
        ("C02/fold_soup", c02::fuzz_entry as fn(&[u32], &mut Stats) -> exmex_verif::runner::CaseResult),
        ("C03/convert_soup", c03::fuzz_entry),
        ("C12/flat_text_identity", c12::fuzz_entry),
    ] {
        if let Err(fl) = f(&tape, &mut st) {
            panic!("{name}: {}: {}", fl.signature, fl.msg);
        }
    }
});
