#![no_main]
//! C06: every UTF-8 text of at most 1000 tokens / nesting 100 goes through every entry point and
//! follow-up; a panic aborts (libfuzzer-sys installs an aborting panic hook), an oracle failure
//! panics explicitly; hangs are caught by libFuzzer's -timeout.
use exmex_verif::props::c06::{exercise, paren_depth, rough_token_count};
use libfuzzer_sys::fuzz_target;

fuzz_target!(|data: &[u8]| {
    if let Ok(s) = std::str::from_utf8(data) {
        if rough_token_count(s) > 1000 || paren_depth(s) > 100 {
            return;
        }
        if let Err(f) = exercise(s) {
            panic!("{}: {}", f.signature, f.msg);
        }
    }
});
