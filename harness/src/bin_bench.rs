use exmex::prelude::*;
use exmex_verif::tcase::*;
use exmex_verif::term::*;
fn main() {
    let table = vec![OpSpec::bin("-", 0, false), OpSpec::un("sin"), OpSpec::bin("+", 1, false)];
    set_table(&table);
    for text in ["( -(x - {x} )- x 1 )", "-(x - x)- x 1", "- x 1", "-(y-z) x", "- (y) - x 1", "+ x 1", "(+ x 1)", "(- (y-z) x)"] {
        let f = F::parse(text);
        let d = D::parse(text);
        match (&f, &d) {
            (Ok(f), Ok(d)) => {
                let n = f.var_names().len();
                let vals: Vec<Term> = (0..n).map(|i| Term::Atom(i as u32)).collect();
                println!("{text:30} flat {:?}   deep {:?}  unparse {}", f.eval(&vals).unwrap(), d.eval(&vals).unwrap(), d.unparse());
            }
            _ => println!("{text:30} flat ok={} deep ok={} {:?} {:?}", f.is_ok(), d.is_ok(), f.err().map(|e| e.msg().to_string()), d.err().map(|e| e.msg().to_string())),
        }
    }
    let text = "(- (y-z) x)";
    println!("f64: {:?} {:?}", exmex::FlatEx::<f64>::parse(text).map(|e| e.eval(&[1.0, 10.0, 100.0])), exmex::DeepEx::<f64>::parse(text).map(|e| e.eval(&[1.0, 10.0, 100.0])));
    println!("f64 eval_str: {:?}", exmex::eval_str::<f64>("* (1 - 2) 4"));
    println!("f64 eval_str: {:?}", exmex::eval_str::<f64>("* 3 4"));
}
