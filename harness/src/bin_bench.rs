use exmex::prelude::*;
use exmex_verif::tcase::*;
use exmex_verif::term::*;
use std::time::Instant;
fn main() {
    for n in [64usize, 128, 256, 513] {
        let table: Vec<OpSpec> = (0..8).map(|i| OpSpec::bin(["+", "-", "*", "/", "^", "%", "&", "|"][i], (i * 12) as i64, false)).collect();
        set_table(&table);
        let mut text = String::new();
        for i in 0..n {
            if i > 0 {
                text.push_str(&format!(" {} ", table[(i * 7) % 8].name));
            }
            text.push_str(&format!("{{u{:03}}}", i));
        }
        let vals: Vec<Term> = (0..n).map(|i| Term::Atom(i as u32)).collect();
        let t = Instant::now();
        let f = F::parse(&text).unwrap();
        let t1 = t.elapsed();
        let _ = f.eval(&vals).unwrap();
        let t2 = t.elapsed();
        let d = D::parse(&text).unwrap();
        let t3 = t.elapsed();
        let _ = d.eval(&vals).unwrap();
        let t4 = t.elapsed();
        let fd = f.clone().to_deepex().unwrap();
        let t5 = t.elapsed();
        let _ = fd.eval(&vals).unwrap();
        let t6 = t.elapsed();
        let _ = F::from_deepex(d).unwrap();
        let t7 = t.elapsed();
        println!("n={n} parse {:?} eval {:?} dparse {:?} deval {:?} to_deepex {:?} eval {:?} from_deepex {:?}", t1, t2 - t1, t3 - t2, t4 - t3, t5 - t4, t6 - t5, t7 - t6);
    }
}
