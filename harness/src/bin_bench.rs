use exmex::prelude::*;
use exmex::{parse_val, Val};
fn main() {
    for (text, x) in [("x/2", 1.0), ("3 ^ ((0.5) if x < 0 else 2)", 1.0), ("x/2.0", 1.0), ("(x*x if x > 1.0 else 2.0*x) + 1", 2.0), ("(x*x if x > 1.0 else 2.0*x) + 1", 0.5), ("x^2", 3.0), ("2.0^x", 1.0), ("sin(x)*3", 0.0), ("(1/2)*x", 2.0), ("x*(7/2)", 2.0),("sqrt(x)",4.0),("log10(x)",4.0), ("1/x", 2.0), ("(x if x<1 else 2*x) if x<3 else 0.5*x", 2.0), ("x^x", 2.0),("y if 1.5 != 1 else x*y", 2.0)] {
        let e = parse_val::<i32, f64>(text).unwrap();
        let n = e.var_names().len();
        let d = e.clone().partial(0);
        match d {
            Ok(d) => println!("{text:45} d/dx = `{}`  at {x}: {:?}", d.unparse(), d.eval(&vec![Val::Float(x); n])),
            Err(er) => println!("{text:45} ERR {}", er.msg()),
        }
    }
}
