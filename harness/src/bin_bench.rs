use exmex::prelude::*;
use std::time::Instant;
fn main() {
    for op in ["^", "*", "/"] {
        for n in [4usize, 6, 8, 10, 12, 14] {
            let text = vec!["x"; n].join(op);
            let e = exmex::FlatEx::<f64>::parse(&text).unwrap();
            let t = Instant::now();
            let d = e.partial(0);
            let el = t.elapsed();
            println!("{op} n={n}: {:?} len={}", el, d.map(|d| d.unparse().len()).unwrap_or(0));
            if el.as_secs() > 5 { break; }
        }
    }
    let text = "sin(".repeat(14) + "x" + &")".repeat(14);
    let e = exmex::FlatEx::<f64>::parse(&text).unwrap();
    let t = Instant::now();
    let d = e.partial(0).unwrap();
    println!("sin nest 14: {:?} len={}", t.elapsed(), d.unparse().len());
}
