//! Calculus machinery: expression trees over the differentiable default operators, rendering,
//! generic forward-mode dual numbers (nestable for higher order) over f64 and exact rationals,
//! with domain margins so that only interior points are judged.
use crate::q::Q;
use crate::tape::Tape;

#[derive(Clone, Debug, PartialEq)]
pub enum CT {
    Num(String),
    Var(usize),
    Un(&'static str, Box<CT>),
    Bin(&'static str, Box<CT>, Box<CT>),
}

pub const DIFF_UN: [&str; 20] = [
    "-", "+", "sqrt", "ln", "log", "log2", "log10", "exp", "sin", "cos", "tan", "asin", "acos", "atan", "sinh", "cosh", "tanh",
    "asinh", "acosh", "atanh",
];
pub const NONDIFF_UN: [&str; 8] = ["abs", "signum", "floor", "ceil", "round", "trunc", "fract", "cbrt"];
pub const NONDIFF_BIN: [&str; 3] = ["atan2", "min", "max"];
pub const DIFF_BIN: [&str; 5] = ["+", "-", "*", "/", "^"];
pub const VAR_NAMES: [&str; 4] = ["x", "y", "z", "w"];
pub const LITS: [&str; 9] = ["0.5", "1", "2", "3", "1.5", "0.25", "4", "2.0", "0"];

pub fn prio(op: &str) -> i64 {
    match op {
        "^" => 4,
        "/" => 3,
        "*" => 2,
        "-" => 1,
        _ => 0, // + atan2 min max
    }
}

#[derive(Clone, Debug)]
pub struct CalcCfg {
    pub max_size: usize,
    pub nvars: usize,
    /// only + - * / and integer powers, unary signs
    pub rational_only: bool,
    /// percentage of unary nodes / binary nodes drawn from the non-differentiable sets
    pub nondiff_pct: u32,
    pub unary_pct: u32,
}

pub fn gen_ct(t: &mut Tape, cfg: &CalcCfg, size: usize) -> CT {
    if size <= 1 {
        if t.chance(40) {
            CT::Num(t.pick(&LITS).to_string())
        } else {
            CT::Var(t.choose(cfg.nvars))
        }
    } else if t.chance(cfg.unary_pct) {
        let name = if cfg.rational_only {
            if t.chance(70) { "-" } else { "+" }
        } else if t.chance(cfg.nondiff_pct) {
            *t.pick(&NONDIFF_UN)
        } else {
            *t.pick(&DIFF_UN)
        };
        CT::Un(name, Box::new(gen_ct(t, cfg, size - 1)))
    } else {
        let l = 1 + t.choose(size - 1);
        let name = if !cfg.rational_only && t.chance(cfg.nondiff_pct) { *t.pick(&NONDIFF_BIN) } else { *t.pick(&DIFF_BIN) };
        if name == "^" && !cfg.rational_only && size >= 3 && t.chance(15) {
            // a power of a power with an even inner exponent: (a^2)^1.5 is |a|^3, not a^3
            // often directly a variable: such a base is negative at half of the signed points
            let inner = if t.chance(50) { CT::Var(t.choose(cfg.nvars)) } else { gen_ct(t, cfg, size - 2) };
            let even = ["2", "4", "2.0"][t.choose(3)];
            let outer = ["1.5", "0.5", "2.5", "3", "1.25"][t.choose(5)];
            let base = CT::Bin("^", Box::new(inner), Box::new(CT::Num(even.to_string())));
            return CT::Bin("^", Box::new(base), Box::new(CT::Num(outer.to_string())));
        }
        if name == "^" && (cfg.rational_only || t.chance(50)) {
            // literal integer exponent
            let e = ["2", "3", "1", "0", "2.0", "4"][t.choose(6)];
            let base = gen_ct(t, cfg, size - 1);
            let expo = if t.chance(15) { CT::Un("-", Box::new(CT::Num(e.to_string()))) } else { CT::Num(e.to_string()) };
            return CT::Bin("^", Box::new(base), Box::new(expo));
        }
        CT::Bin(name, Box::new(gen_ct(t, cfg, l)), Box::new(gen_ct(t, cfg, size - l)))
    }
}

pub fn render_ct(t: &CT, tape: &mut Tape) -> String {
    match t {
        CT::Num(s) => s.clone(),
        CT::Var(i) => {
            if tape.chance(25) {
                format!("{{{}}}", VAR_NAMES[*i])
            } else {
                VAR_NAMES[*i].to_string()
            }
        }
        CT::Un(o, a) => {
            let inner = render_ct(a, tape);
            let leafish = matches!(**a, CT::Num(_) | CT::Var(_) | CT::Un(..));
            if (*o == "-" || *o == "+") && leafish && tape.chance(60) {
                format!("{o}{inner}")
            } else if leafish && !(*o == "-" || *o == "+") && tape.chance(20) {
                format!("{o} {inner}")
            } else {
                format!("{o}({inner})")
            }
        }
        CT::Bin(o, a, b) => {
            if ["atan2", "min", "max"].contains(o) && tape.chance(60) {
                return format!("{o}({}, {})", render_ct(a, tape), render_ct(b, tape));
            }
            let p = prio(o);
            let ls = match **a {
                CT::Bin(oa, ..) if prio(oa) < p => format!("({})", render_ct(a, tape)),
                _ => render_ct(a, tape),
            };
            let rs = match **b {
                CT::Bin(ob, ..) if prio(ob) <= p => format!("({})", render_ct(b, tape)),
                _ => render_ct(b, tape),
            };
            let sp = if tape.chance(50) || o.chars().next().unwrap().is_alphabetic() { " " } else { "" };
            format!("{ls}{sp}{o}{sp}{rs}")
        }
    }
}

pub fn ct_has_var(t: &CT) -> bool {
    match t {
        CT::Num(_) => false,
        CT::Var(_) => true,
        CT::Un(_, a) => ct_has_var(a),
        CT::Bin(_, a, b) => ct_has_var(a) || ct_has_var(b),
    }
}
pub fn ct_vars(t: &CT, out: &mut Vec<usize>) {
    match t {
        CT::Var(i) => {
            if !out.contains(i) {
                out.push(*i)
            }
        }
        CT::Un(_, a) => ct_vars(a, out),
        CT::Bin(_, a, b) => {
            ct_vars(a, out);
            ct_vars(b, out)
        }
        _ => {}
    }
}
pub fn ct_has_nondiff_on_var(t: &CT) -> bool {
    match t {
        CT::Un(o, a) => (NONDIFF_UN.contains(o) && ct_has_var(a)) || ct_has_nondiff_on_var(a),
        CT::Bin(o, a, b) => {
            (NONDIFF_BIN.contains(o) && (ct_has_var(a) || ct_has_var(b))) || ct_has_nondiff_on_var(a) || ct_has_nondiff_on_var(b)
        }
        _ => false,
    }
}
pub fn ct_has_any_nondiff(t: &CT) -> bool {
    match t {
        CT::Un(o, a) => NONDIFF_UN.contains(o) || ct_has_any_nondiff(a),
        CT::Bin(o, a, b) => NONDIFF_BIN.contains(o) || ct_has_any_nondiff(a) || ct_has_any_nondiff(b),
        _ => false,
    }
}
pub fn ct_size(t: &CT) -> usize {
    match t {
        CT::Un(_, a) => 1 + ct_size(a),
        CT::Bin(_, a, b) => 1 + ct_size(a) + ct_size(b),
        _ => 1,
    }
}
#[derive(Default, Debug, Clone)]
pub struct CtFacts {
    pub product: bool,
    pub quotient: bool,
    pub var_exponent: bool,
    pub unary_chain2: bool,
    pub power: bool,
}
pub fn ct_facts(t: &CT, f: &mut CtFacts) {
    match t {
        CT::Un(_, a) => {
            if matches!(**a, CT::Un(..)) {
                f.unary_chain2 = true;
            }
            ct_facts(a, f)
        }
        CT::Bin(o, a, b) => {
            match *o {
                "*" if ct_has_var(a) && ct_has_var(b) => f.product = true,
                "/" if ct_has_var(b) => f.quotient = true,
                "^" => {
                    f.power = true;
                    if ct_has_var(b) {
                        f.var_exponent = true
                    }
                }
                _ => {}
            }
            ct_facts(a, f);
            ct_facts(b, f)
        }
        _ => {}
    }
}

// ---------------------------------------------------------------------------------------------
// generic numbers

pub trait Num: Clone {
    fn cst(x: f64, lit: &str) -> Self;
    fn re(&self) -> f64;
    fn add(&self, o: &Self) -> Self;
    fn sub(&self, o: &Self) -> Self;
    fn mul(&self, o: &Self) -> Self;
    fn div(&self, o: &Self) -> Self;
    fn neg(&self) -> Self;
    /// integer power
    fn powi(&self, n: i32) -> Self;
    /// elementary function by name (value and, for duals, chain rule)
    fn func(&self, name: &str) -> Self;
    fn defined(&self) -> bool;
    /// is the value an integer (decided exactly where the type is exact)
    fn is_int(&self) -> bool {
        self.re().fract() == 0.0
    }
    /// noise injection for the conditioning estimate (see `sensitivity`): identity unless a noise
    /// pattern is active
    fn perturb(self) -> Self {
        self
    }
}

thread_local! {
    /// 0 = off; otherwise the id of the sign pattern of the injected relative noise
    static NOISE_PATTERN: std::cell::Cell<u64> = const { std::cell::Cell::new(0) };
    static NOISE_NODE: std::cell::Cell<u64> = const { std::cell::Cell::new(0) };
}
pub const NOISE: f64 = 1e-11;

impl Num for f64 {
    fn perturb(self) -> Self {
        let pat = NOISE_PATTERN.with(|p| p.get());
        if pat == 0 {
            return self;
        }
        let k = NOISE_NODE.with(|n| {
            let k = n.get();
            n.set(k + 1);
            k
        });
        if crate::tape::mix(pat, k) & 1 == 0 {
            self * (1.0 + NOISE)
        } else {
            self * (1.0 - NOISE)
        }
    }
    fn cst(x: f64, _lit: &str) -> Self {
        x
    }
    fn re(&self) -> f64 {
        *self
    }
    fn add(&self, o: &Self) -> Self {
        self + o
    }
    fn sub(&self, o: &Self) -> Self {
        self - o
    }
    fn mul(&self, o: &Self) -> Self {
        self * o
    }
    fn div(&self, o: &Self) -> Self {
        self / o
    }
    fn neg(&self) -> Self {
        -self
    }
    fn powi(&self, n: i32) -> Self {
        f64::powi(*self, n)
    }
    fn func(&self, name: &str) -> Self {
        let x = *self;
        match name {
            "sqrt" => x.sqrt(),
            "ln" | "log" => x.ln(),
            "log2" => x.log2(),
            "log10" => x.log10(),
            "exp" => x.exp(),
            "sin" => x.sin(),
            "cos" => x.cos(),
            "tan" => x.tan(),
            "asin" => x.asin(),
            "acos" => x.acos(),
            "atan" => x.atan(),
            "sinh" => x.sinh(),
            "cosh" => x.cosh(),
            "tanh" => x.tanh(),
            "asinh" => x.asinh(),
            "acosh" => x.acosh(),
            "atanh" => x.atanh(),
            "abs" => x.abs(),
            "signum" => x.signum(),
            "floor" => x.floor(),
            "ceil" => x.ceil(),
            "round" => x.round(),
            "trunc" => x.trunc(),
            "fract" => x.fract(),
            "cbrt" => x.cbrt(),
            _ => f64::NAN,
        }
    }
    fn defined(&self) -> bool {
        self.is_finite()
    }
}

impl Num for Q {
    fn is_int(&self) -> bool {
        self.0.as_ref().map(|r| r.is_integer()).unwrap_or(false)
    }
    fn cst(_x: f64, lit: &str) -> Self {
        lit.parse::<Q>().unwrap_or(Q::undef())
    }
    fn re(&self) -> f64 {
        self.to_f64().unwrap_or(f64::NAN)
    }
    fn add(&self, o: &Self) -> Self {
        Q::add(self.clone(), o.clone())
    }
    fn sub(&self, o: &Self) -> Self {
        Q::sub(self.clone(), o.clone())
    }
    fn mul(&self, o: &Self) -> Self {
        Q::mul(self.clone(), o.clone())
    }
    fn div(&self, o: &Self) -> Self {
        Q::div(self.clone(), o.clone())
    }
    fn neg(&self) -> Self {
        Q::neg(self.clone())
    }
    fn powi(&self, n: i32) -> Self {
        Q::pow(self.clone(), Q::int(n as i64))
    }
    fn func(&self, _name: &str) -> Self {
        Q::undef()
    }
    fn defined(&self) -> bool {
        self.is_defined()
    }
}

#[derive(Clone, Debug)]
pub struct Dual<T: Num> {
    pub v: T,
    pub d: T,
}
impl<T: Num> Dual<T> {
    pub fn var(v: T, seed: bool) -> Self {
        let d = if seed { T::cst(1.0, "1") } else { T::cst(0.0, "0") };
        Dual { v, d }
    }
}
impl<T: Num> Num for Dual<T> {
    fn is_int(&self) -> bool {
        self.v.is_int()
    }
    fn perturb(self) -> Self {
        Dual { v: self.v.perturb(), d: self.d.perturb() }
    }
    fn cst(x: f64, lit: &str) -> Self {
        Dual { v: T::cst(x, lit), d: T::cst(0.0, "0") }
    }
    fn re(&self) -> f64 {
        self.v.re()
    }
    fn add(&self, o: &Self) -> Self {
        Dual { v: self.v.add(&o.v), d: self.d.add(&o.d) }
    }
    fn sub(&self, o: &Self) -> Self {
        Dual { v: self.v.sub(&o.v), d: self.d.sub(&o.d) }
    }
    fn mul(&self, o: &Self) -> Self {
        Dual { v: self.v.mul(&o.v), d: self.d.mul(&o.v).add(&self.v.mul(&o.d)) }
    }
    fn div(&self, o: &Self) -> Self {
        let v = self.v.div(&o.v);
        let num = self.d.mul(&o.v).sub(&self.v.mul(&o.d));
        Dual { v, d: num.div(&o.v.mul(&o.v)) }
    }
    fn neg(&self) -> Self {
        Dual { v: self.v.neg(), d: self.d.neg() }
    }
    fn powi(&self, n: i32) -> Self {
        if n == 0 {
            return Dual { v: self.v.powi(0), d: T::cst(0.0, "0") };
        }
        let nn = T::cst(n as f64, &format!("{n}"));
        Dual { v: self.v.powi(n), d: nn.mul(&self.v.powi(n - 1)).mul(&self.d) }
    }
    fn func(&self, name: &str) -> Self {
        let x = &self.v;
        let one = T::cst(1.0, "1");
        let two = T::cst(2.0, "2");
        let v = x.func(name);
        let dv: T = match name {
            "sqrt" => one.div(&two.mul(&x.func("sqrt"))),
            "ln" | "log" => one.div(x),
            "log2" => one.div(&x.mul(&T::cst(std::f64::consts::LN_2, "?"))),
            "log10" => one.div(&x.mul(&T::cst(std::f64::consts::LN_10, "?"))),
            "exp" => x.func("exp"),
            "sin" => x.func("cos"),
            "cos" => x.func("sin").neg(),
            "tan" => one.div(&x.func("cos").mul(&x.func("cos"))),
            "asin" => one.div(&one.sub(&x.mul(x)).func("sqrt")),
            "acos" => one.div(&one.sub(&x.mul(x)).func("sqrt")).neg(),
            "atan" => one.div(&one.add(&x.mul(x))),
            "sinh" => x.func("cosh"),
            "cosh" => x.func("sinh"),
            "tanh" => one.sub(&x.func("tanh").mul(&x.func("tanh"))),
            "asinh" => one.div(&one.add(&x.mul(x)).func("sqrt")),
            "acosh" => one.div(&x.sub(&one).func("sqrt").mul(&x.add(&one).func("sqrt"))),
            "atanh" => one.div(&one.sub(&x.mul(x))),
            // derivatives away from the kinks
            "abs" => x.func("signum"),
            "signum" | "floor" | "ceil" | "round" | "trunc" => T::cst(0.0, "0"),
            "fract" => one.clone(),
            "cbrt" => one.div(&T::cst(3.0, "3").mul(&x.func("cbrt").mul(&x.func("cbrt")))),
            _ => T::cst(f64::NAN, "?"),
        };
        Dual { v, d: dv.mul(&self.d) }
    }
    fn defined(&self) -> bool {
        self.v.defined() && self.d.defined()
    }
}

/// Magnitude guard over all components of nested duals.
pub trait Bounded {
    fn max_abs(&self) -> f64;
}
impl Bounded for f64 {
    fn max_abs(&self) -> f64 {
        if self.is_finite() {
            self.abs()
        } else {
            f64::INFINITY
        }
    }
}
impl Bounded for Q {
    fn max_abs(&self) -> f64 {
        match self.to_f64() {
            Some(x) if x.is_finite() => x.abs(),
            Some(_) => f64::INFINITY,
            None => f64::INFINITY,
        }
    }
}
impl<T: Num + Bounded> Bounded for Dual<T> {
    fn max_abs(&self) -> f64 {
        self.v.max_abs().max(self.d.max_abs())
    }
}

pub const MARGIN: f64 = 0.05;
pub const BOUND: f64 = 1e6;

/// Evaluates the tree; `ok` is cleared when the point is not safely in the interior of the domain
/// (arguments near singularities or kinks, huge intermediate values).
pub fn eval_ct<T: Num + Bounded>(t: &CT, vars: &[T], ok: &mut bool) -> T {
    let r: T = match t {
        CT::Num(s) => T::cst(s.parse::<f64>().unwrap_or(f64::NAN), s),
        CT::Var(i) => vars[*i].clone(),
        CT::Un(o, a) => {
            let a = eval_ct(a, vars, ok);
            let x = a.re();
            match *o {
                "-" => a.neg(),
                "+" => a,
                name => {
                    match name {
                        "sqrt" | "ln" | "log" | "log2" | "log10" => {
                            if !(x >= MARGIN) {
                                *ok = false
                            }
                        }
                        "asin" | "acos" | "atanh" => {
                            if !(x.abs() <= 1.0 - MARGIN) {
                                *ok = false
                            }
                        }
                        "acosh" => {
                            if !(x >= 1.0 + MARGIN) {
                                *ok = false
                            }
                        }
                        "tan" => {
                            if !(x.cos().abs() >= MARGIN) {
                                *ok = false
                            }
                        }
                        "exp" | "sinh" | "cosh" => {
                            if !(x.abs() <= 12.0) {
                                *ok = false
                            }
                        }
                        "abs" | "signum" | "cbrt" => {
                            if !(x.abs() >= MARGIN) {
                                *ok = false
                            }
                        }
                        "floor" | "ceil" | "trunc" | "fract" => {
                            if !((x - x.round()).abs() >= MARGIN) {
                                *ok = false
                            }
                        }
                        "round" => {
                            if !(((x - 0.5) - (x - 0.5).round()).abs() >= MARGIN) {
                                *ok = false
                            }
                        }
                        _ => {}
                    }
                    a.func(name)
                }
            }
        }
        CT::Bin(o, a, b) => {
            let b_has_var = ct_has_var(b);
            let x = eval_ct(a, vars, ok);
            let y = eval_ct(b, vars, ok);
            match *o {
                "+" => x.add(&y),
                "-" => x.sub(&y),
                "*" => x.mul(&y),
                "/" => {
                    if !(y.re().abs() >= MARGIN) {
                        *ok = false
                    }
                    x.div(&y)
                }
                "^" if !ct_has_var(a) && x.re() == 0.0 && b_has_var => {
                    // constant zero base under a variable exponent: 0^y = 0 with derivative 0 for y > 0
                    if !(y.re() >= MARGIN) {
                        *ok = false;
                    }
                    x.mul(&y)
                }
                "^" => {
                    let e = y.re();
                    if !(e.abs() <= 8.0) {
                        *ok = false;
                    }
                    if !b_has_var && y.is_int() && e.abs() <= 8.0 {
                        if e < 1.0 && !(x.re().abs() >= MARGIN) {
                            // x^0, x^negative at 0 are singular or formula-sensitive
                            *ok = false;
                        }
                        x.powi(e as i32)
                    } else {
                        if !(x.re() >= MARGIN) {
                            *ok = false;
                        }
                        // exp(y ln x)
                        y.mul(&x.func("ln")).func("exp")
                    }
                }
                "min" | "max" => {
                    if !((x.re() - y.re()).abs() >= MARGIN) {
                        *ok = false;
                    }
                    let take_x = if *o == "min" { x.re() < y.re() } else { x.re() > y.re() };
                    if take_x {
                        x
                    } else {
                        y
                    }
                }
                "atan2" => {
                    // atan2(y,x): d = (x dy - y dx)/(x^2+y^2), computed as atan(y/x) on x>0
                    if !(y.re() >= MARGIN) {
                        *ok = false;
                    }
                    x.div(&y).func("atan")
                }
                _ => {
                    *ok = false;
                    x
                }
            }
        }
    };
    if !r.defined() || !(r.max_abs() <= BOUND) {
        *ok = false;
    }
    // noise (conditioning estimate) only on the results of operations: literals and variables are
    // exact, and a perturbed literal exponent would no longer be an integer
    if matches!(t, CT::Un(..) | CT::Bin(..)) {
        r.perturb()
    } else {
        r
    }
}

pub fn close(a: f64, b: f64, tol: f64) -> bool {
    (a.is_nan() && b.is_nan()) || a == b || (a - b).abs() <= tol * (1.0 + a.abs().max(b.abs()))
}

/// Can the text of a float expression be parsed back? (Debug of f64 may use exponents, inf, NaN.)
pub fn float_text_reparseable(text: &str) -> bool {
    if text.contains("inf") || text.contains("NaN") {
        return false;
    }
    let b = text.as_bytes();
    !(1..b.len()).any(|i| b[i] == b'e' && b[i - 1].is_ascii_digit() && i + 1 < b.len() && (b[i + 1] == b'-' || b[i + 1].is_ascii_digit()))
}


/// Sensitivity of a scalar function of the point to relative perturbations of 1e-11 in each
/// coordinate: an estimate of how much rounding inside a *different but equivalent* evaluation
/// order may legitimately move the value (ill-conditioned cases: poles, fract of huge numbers, long
/// power chains). Returns None if a perturbed point leaves the domain.
pub fn sensitivity(f: &dyn Fn(&[f64]) -> Option<f64>, point: &[f64]) -> Option<f64> {
    let base = f(point)?;
    let mut s: f64 = 0.0;
    for k in 0..point.len() {
        for sign in [1.0, -1.0] {
            let mut p = point.to_vec();
            let h = sign * 1e-11 * p[k].abs().max(1e-3);
            p[k] += h;
            let v = f(&p)?;
            s = s.max((v - base).abs());
        }
    }
    // rounding *inside* the evaluation: relative noise of 1e-11 (sign patterns) on the result of
    // every node of the reference evaluation; this is what tells tan(exp(x/0.25)^(3/x)) - constant
    // in x, but the tangent of 162754.79 - from a well-conditioned expression. Has an effect only
    // if `f` evaluates through `eval_ct`.
    struct NoiseOff;
    impl Drop for NoiseOff {
        fn drop(&mut self) {
            NOISE_PATTERN.with(|p| p.set(0));
        }
    }
    for pattern in 1..=6u64 {
        let v = {
            let _off = NoiseOff;
            NOISE_PATTERN.with(|p| p.set(pattern));
            NOISE_NODE.with(|n| n.set(0));
            f(point)
        };
        let v = v?;
        s = s.max((v - base).abs());
    }
    if s.is_finite() {
        Some(s)
    } else {
        None
    }
}

/// |a - b| within `tol` relative (plus absolute `tol`) or within 10x the conditioning estimate
pub fn close_cond(a: f64, b: f64, tol: f64, sens: f64) -> bool {
    close(a, b, tol) || (a - b).abs() <= 10.0 * sens
}
