//! Mirrors of the library's built-in operator tables (read through the public `MakeOperators`
//! trait, so priorities and flags are the library's own) for driving the tree generator and
//! renderer with the real float / value operators.
use crate::gen::Tree;
use crate::term::{intern, OpSpec};
use exmex::{MakeOperators, Operator};

pub fn mirror<T: Clone + std::fmt::Debug>(ops: &[Operator<'_, T>]) -> Vec<OpSpec> {
    ops.iter()
        .map(|o| OpSpec {
            name: intern(o.repr()),
            bin: o.bin().ok().map(|b| (b.prio, b.is_commutative)),
            unary: o.has_unary(),
            constant: o.constant().is_some(),
        })
        .collect()
}

pub fn float_table() -> Vec<OpSpec> {
    mirror(&exmex::FloatOpsFactory::<f64>::make())
}
pub fn val_table() -> Vec<OpSpec> {
    mirror(&exmex::ValOpsFactory::<i32, f64>::make())
}

/// restricts a mirrored table to the listed names (keeps slots' order; indices change)
pub fn restrict(table: &[OpSpec], names: &[&str]) -> Vec<OpSpec> {
    table.iter().filter(|o| names.contains(&o.name)).cloned().collect()
}

/// Evaluates a tree with the library's own operator functions applied strictly in tree order.
/// as `eval_with_ops`, calling `watch` on the value of every node
pub fn eval_with_ops_watch<T: Clone + std::fmt::Debug + std::str::FromStr>(
    tr: &Tree,
    table: &[OpSpec],
    ops: &[Operator<'_, T>],
    vars: &[T],
    watch: &mut dyn FnMut(&T),
) -> T
where
    <T as std::str::FromStr>::Err: std::fmt::Debug,
{
    let find = |name: &str| ops.iter().find(|o| o.repr() == name).expect("operator in library table");
    let v = match tr {
        Tree::Num(s) => s.parse::<T>().expect("literal parses"),
        Tree::Const(c) => find(table[*c].name).constant().expect("constant"),
        Tree::Var(i) => vars[*i].clone(),
        Tree::Un(o, a) => {
            let x = eval_with_ops_watch(a, table, ops, vars, watch);
            (find(table[*o].name).unary().expect("unary"))(x)
        }
        Tree::Bin(o, a, b) => {
            let x = eval_with_ops_watch(a, table, ops, vars, watch);
            let y = eval_with_ops_watch(b, table, ops, vars, watch);
            (find(table[*o].name).bin().expect("binary").apply)(x, y)
        }
    };
    watch(&v);
    v
}

pub fn eval_with_ops<T: Clone + std::fmt::Debug + std::str::FromStr>(
    tr: &Tree,
    table: &[OpSpec],
    ops: &[Operator<'_, T>],
    vars: &[T],
) -> T
where
    <T as std::str::FromStr>::Err: std::fmt::Debug,
{
    let find = |name: &str| ops.iter().find(|o| o.repr() == name).expect("operator in library table");
    match tr {
        Tree::Num(s) => s.parse::<T>().expect("literal parses"),
        Tree::Const(c) => find(table[*c].name).constant().expect("constant"),
        Tree::Var(i) => vars[*i].clone(),
        Tree::Un(o, a) => (find(table[*o].name).unary().expect("unary"))(eval_with_ops(a, table, ops, vars)),
        Tree::Bin(o, a, b) => (find(table[*o].name).bin().expect("binary").apply)(
            eval_with_ops(a, table, ops, vars),
            eval_with_ops(b, table, ops, vars),
        ),
    }
}
