//! Driver for the coverage-guided campaigns (cargo-fuzz / libFuzzer targets in /verif/fuzz), used by
//! the thorough tier. Every artifact libFuzzer reports is re-checked with the plain in-process
//! oracle (no sanitizer, no fuzzer runtime) and only then reported.
use crate::runner::*;
use serde_json::{json, Value};
use std::path::{Path, PathBuf};
use std::process::{Command, Stdio};
use std::time::Instant;

pub struct Campaign {
    pub target: &'static str,
    pub seed_corpus: Option<&'static str>,
    pub runs_per_job: u64,
    pub jobs: usize,
    pub max_len: usize,
    pub dict: Option<&'static str>,
}

fn fuzz_bin(target: &str) -> PathBuf {
    PathBuf::from(format!("{VERIF_DIR}/.target/x86_64-unknown-linux-gnu/release/{target}"))
}

pub fn build_target(target: &str) -> Result<(), String> {
    let out = Command::new("cargo")
        .args(["+nightly", "fuzz", "build", "--fuzz-dir", &format!("{VERIF_DIR}/fuzz"), "-s", "none", target])
        .current_dir(format!("{VERIF_DIR}/harness"))
        .env("CARGO_NET_OFFLINE", "true")
        .stdout(Stdio::null())
        .stderr(Stdio::piped())
        .output()
        .map_err(|e| format!("cannot run cargo fuzz: {e}"))?;
    if !out.status.success() {
        let err = String::from_utf8_lossy(&out.stderr);
        let tail: String = err.lines().rev().take(15).collect::<Vec<_>>().into_iter().rev().collect::<Vec<_>>().join("\n");
        return Err(format!("cargo fuzz build failed:\n{tail}"));
    }
    if !fuzz_bin(target).exists() {
        return Err(format!("fuzz binary {:?} missing after build", fuzz_bin(target)));
    }
    Ok(())
}

fn copy_dir(from: &Path, to: &Path) {
    let _ = std::fs::create_dir_all(to);
    if let Ok(rd) = std::fs::read_dir(from) {
        for e in rd.flatten() {
            if e.path().is_file() {
                let _ = std::fs::copy(e.path(), to.join(e.file_name()));
            }
        }
    }
}

/// Runs the campaign; `recheck` decides whether an artifact really violates the property.
pub fn run_campaign(c: &Campaign, seed: u64, recheck: &dyn Fn(&Path) -> Option<(Fail, Value)>) -> SubReport {
    let start = Instant::now();
    let mut stats = Stats::default();
    let mut failures = vec![];
    if let Err(e) = build_target(c.target) {
        eprintln!("[fuzz:{}] {e}", c.target);
        stats.excluded.insert("fuzz campaign could not be built (see stderr)".into(), 1);
        return SubReport { name: String::new(), rule: String::new(), stats, exhaustive: false, failures, wall_s: start.elapsed().as_secs_f64() };
    }
    let work = PathBuf::from(format!("{VERIF_DIR}/.target/fuzzwork/{}-{}", c.target, std::process::id()));
    let _ = std::fs::remove_dir_all(&work);
    let mut children = vec![];
    for j in 0..c.jobs {
        let corpus = work.join(format!("corpus-{j}"));
        let arts = work.join(format!("artifacts-{j}"));
        let _ = std::fs::create_dir_all(&arts);
        match c.seed_corpus {
            Some(dir) if j % 2 == 0 => copy_dir(Path::new(dir), &corpus),
            _ => {
                let _ = std::fs::create_dir_all(&corpus);
            }
        }
        let mut cmd = Command::new(fuzz_bin(c.target));
        cmd.arg(&corpus)
            .arg(format!("-runs={}", c.runs_per_job))
            .arg(format!("-seed={}", (crate::tape::mix(seed, j as u64) % 1_000_000_007).max(1)))
            .arg(format!("-max_len={}", c.max_len))
            .arg("-len_control=0")
            .arg("-timeout=30")
            .arg("-rss_limit_mb=4096")
            .arg("-print_final_stats=1")
            .arg(format!("-artifact_prefix={}/", arts.display()));
        if let Some(d) = c.dict {
            cmd.arg(format!("-dict={d}"));
        }
        let log = std::fs::File::create(work.join(format!("log-{j}.txt"))).ok();
        match log {
            Some(l) => {
                cmd.stdout(Stdio::null()).stderr(l);
            }
            None => {
                cmd.stdout(Stdio::null()).stderr(Stdio::null());
            }
        }
        match cmd.spawn() {
            Ok(ch) => children.push((j, ch)),
            Err(e) => eprintln!("[fuzz:{}] cannot start job {j}: {e}", c.target),
        }
    }
    for (j, mut ch) in children {
        let _ = ch.wait();
        let log = std::fs::read_to_string(work.join(format!("log-{j}.txt"))).unwrap_or_default();
        for line in log.lines() {
            if let Some(v) = line.strip_prefix("stat::number_of_executed_units:") {
                stats.evals += v.trim().parse::<u64>().unwrap_or(0);
            }
            if let Some(v) = line.strip_prefix("stat::new_units_added:") {
                // inputs that reached new coverage: a conservative count of distinct non-trivial cases
                let n = v.trim().parse::<u64>().unwrap_or(0);
                for k in 0..n {
                    stats.nontrivial.insert(crate::tape::mix(j as u64 + 1, k));
                }
            }
        }
        if let Ok(rd) = std::fs::read_dir(work.join(format!("artifacts-{j}"))) {
            for e in rd.flatten() {
                *stats.classes.entry("artifact reported by libFuzzer (re-checked)".into()).or_insert(0) += 1;
                if let Some((fl, desc)) = recheck(&e.path()) {
                    // keep the input next to the replays
                    let keep = format!("{}/replays/fuzz-{}-{}", out_dir(), c.target, e.file_name().to_string_lossy());
                    let _ = std::fs::create_dir_all(format!("{}/replays", out_dir()));
                    let _ = std::fs::copy(e.path(), &keep);
                    failures.push((fl, desc));
                } else {
                    *stats.classes.entry("artifact not reproducible by the plain oracle (sanitizer/fuzzer runtime effect)".into()).or_insert(0) += 1;
                }
            }
        }
        // a few corpus entries as samples
        if stats.samples.len() < 3 {
            if let Ok(rd) = std::fs::read_dir(work.join(format!("corpus-{j}"))) {
                for e in rd.flatten().take(2) {
                    if let Ok(b) = std::fs::read(e.path()) {
                        stats.samples.push(json!({"corpus_entry": String::from_utf8_lossy(&b).chars().take(120).collect::<String>()}));
                    }
                }
            }
        }
    }
    let _ = std::fs::remove_dir_all(&work);
    SubReport { name: String::new(), rule: String::new(), stats, exhaustive: false, failures, wall_s: start.elapsed().as_secs_f64() }
}

pub fn skipped(note: &str) -> SubReport {
    let mut stats = Stats::default();
    stats.excluded.insert(note.to_string(), 1);
    SubReport { name: String::new(), rule: String::new(), stats, exhaustive: false, failures: vec![], wall_s: 0.0 }
}

pub fn bytes_to_tape(data: &[u8]) -> Vec<u32> {
    data.chunks(4)
        .map(|c| {
            let mut b = [0u8; 4];
            b[..c.len()].copy_from_slice(c);
            u32::from_le_bytes(b)
        })
        .collect()
}

/// the differential target's body, callable in-process
pub fn differential_oracle(tape: &[u32]) -> CaseResult {
    let mut st = Stats { frozen: true, ..Default::default() };
    crate::props::c02::fuzz_entry(tape, &mut st)?;
    crate::props::c03::fuzz_entry(tape, &mut st)?;
    crate::props::c12::fuzz_entry(tape, &mut st)?;
    Ok(())
}

pub fn run_differential(tier: Tier, seed: u64) -> SubReport {
    if tier == Tier::Quick {
        return skipped("coverage-guided campaign runs in the thorough tier only");
    }
    let c = Campaign { target: "differential", seed_corpus: None, runs_per_job: 400_000, jobs: n_threads().min(8), max_len: 1600, dict: None };
    run_campaign(&c, seed, &|path: &Path| {
        let bytes = std::fs::read(path).ok()?;
        let tape = bytes_to_tape(&bytes);
        match guard(|| differential_oracle(&tape)) {
            Ok(Ok(())) => None,
            Ok(Err(fl)) => Some((fl, json!({"tape": tape}))),
            Err(p) => Some((fail("fuzz/differential/panic", format!("panic: {p}"), json!(null)), json!({"tape": tape}))),
        }
    })
}
pub fn replay_differential(desc: &Value) -> CaseResult {
    let tape: Vec<u32> = desc.get("tape").and_then(|t| t.as_array()).map(|a| a.iter().map(|x| x.as_u64().unwrap_or(0) as u32).collect()).unwrap_or_default();
    differential_oracle(&tape)
}
pub fn differential_subcheck() -> SubCheck {
    SubCheck {
        name: "fuzz_differential",
        rule: "thorough tier: libFuzzer campaign (8 jobs x 400k runs, no sanitizer) on the target whose input bytes are the choice tape of the token-soup cases of C02, C03 and C12; artifacts are re-checked by the plain oracle; distinct non-trivial = inputs that reached new coverage",
        kind: Kind::Custom { run: run_differential, replay: replay_differential },
    }
}
