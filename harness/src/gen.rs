//! Generators: operator tables, expression trees, renderings (text), reference semantics.
use crate::tape::Tape;
use crate::term::{intern, OpSpec, Term, CONST_BASE};
use std::collections::BTreeSet;

#[derive(Clone, Debug, PartialEq, Eq, Hash)]
pub enum Tree {
    Num(String),
    Const(usize),
    Var(usize),
    Un(usize, Box<Tree>),
    Bin(usize, Box<Tree>, Box<Tree>),
}

pub const SYM_BIN: [&str; 24] = [
    "+", "-", "*", "/", "^", "%", "&", "|", "<", "<=", "<<", "==", "!=", "&&", "||", ">", ">=", ">>",
    "=", "@", ":", ";", "~", "!",
];
pub const ALPHA_BIN: [&str; 10] = ["max", "min", "atan2", "if", "else", "mod", "o", "XOR", "dot", "δ"];
pub const SYM_UN: [&str; 4] = ["!", "~", "√", "¬"];
pub const ALPHA_UN: [&str; 13] =
    ["sin", "cos", "ln", "log", "log2", "log10", "lo", "f", "neg", "sinh", "s", "abs", "σ"];
pub const CONSTS: [&str; 8] = ["PI", "E", "e", "π", "TAU", "τ", "T", "c_0"];

pub fn is_ident_char(c: char) -> bool {
    c.is_ascii_alphanumeric() || c == '_' || ('α'..='ω').contains(&c) || ('Α'..='Ω').contains(&c)
}
pub fn is_ident_start(c: char) -> bool {
    c.is_ascii_alphabetic() || c == '_' || ('α'..='ω').contains(&c) || ('Α'..='Ω').contains(&c)
}
pub fn is_identifier(s: &str) -> bool {
    let mut it = s.chars();
    match it.next() {
        Some(c) if is_ident_start(c) => it.all(is_ident_char),
        _ => false,
    }
}
pub fn is_alpha_name(s: &str) -> bool {
    s.chars().next().map(is_ident_start).unwrap_or(false)
}

#[derive(Clone, Debug)]
pub struct TableCfg {
    pub max_bin: usize,
    pub max_un: usize,
    pub max_const: usize,
    /// all binary operators non-commutative
    pub no_comm: bool,
    /// percentage of binary operators with alphabetic names
    pub alpha_pct: u32,
}
impl Default for TableCfg {
    fn default() -> Self {
        TableCfg { max_bin: 9, max_un: 5, max_const: 3, no_comm: false, alpha_pct: 30 }
    }
}

/// Operator table; sound by construction: distinct names, priorities in 0..=99, no name starts
/// with a digit, dot, bracket, brace, paren, comma or space.
pub fn gen_table(t: &mut Tape, cfg: &TableCfg) -> Vec<OpSpec> {
    let mut table: Vec<OpSpec> = vec![];
    let mut used: BTreeSet<&'static str> = BTreeSet::new();
    let nbin = 1 + t.choose(cfg.max_bin);
    let nprio = 1 + t.choose(5);
    let prio_pool: Vec<i64> = {
        let mut v: Vec<i64> = vec![];
        for k in 0..nprio {
            let special = t.choose(10);
            v.push(match special {
                9 => 99,
                8 => 50,
                _ => k as i64,
            });
        }
        v
    };
    for _ in 0..nbin {
        let alpha = t.chance(cfg.alpha_pct);
        let name = if alpha { *t.pick(&ALPHA_BIN) } else { *t.pick(&SYM_BIN) };
        if used.contains(name) {
            continue;
        }
        used.insert(name);
        let prio = *t.pick(&prio_pool);
        let comm = !cfg.no_comm && t.chance(50);
        let dual = if alpha { t.chance(5) } else { t.chance(25) };
        table.push(OpSpec { name: intern(name), bin: Some((prio, comm)), unary: dual, constant: false });
    }
    if table.is_empty() {
        table.push(OpSpec::bin("+", 0, false));
        used.insert("+");
    }
    let nun = t.choose(cfg.max_un + 1);
    for _ in 0..nun {
        let name = if t.chance(25) { *t.pick(&SYM_UN) } else { *t.pick(&ALPHA_UN) };
        if used.contains(name) {
            continue;
        }
        used.insert(name);
        table.push(OpSpec::un(name));
    }
    let nconst = t.choose(cfg.max_const + 1);
    for _ in 0..nconst {
        let name = *t.pick(&CONSTS);
        if used.contains(name) {
            continue;
        }
        used.insert(name);
        table.push(OpSpec::constant(name));
    }
    // the library must not depend on the order of the table: rotate it
    if table.len() > 1 {
        let r = t.choose(table.len());
        table.rotate_left(r);
    }
    table
}

pub const BARE_NAMES: [&str; 28] = [
    "x", "y", "z", "a", "b", "v0", "v1", "x_1", "_a", "α", "β1", "Ω", "Zz", "q9", "sinx", "PI5", "e1",
    "log2x", "Erwin", "expx", "w", "u", "maxi", "ifx", "oo", "elsewhere", "λ", "_",
];
pub const BRACED_NAMES: [&str; 16] = [
    " x", "x y", "1", "+", "sin", "👍", "", "a{b", "2x", "(", "a,b", ")", "x ", "-1", "[1,2]", "ö",
];

#[derive(Clone, Debug)]
pub struct VarPool {
    pub names: Vec<String>,
    /// may be written without braces for the current table
    pub bare_ok: Vec<bool>,
}

pub fn bare_name_ok(name: &str, table: &[OpSpec]) -> bool {
    if !is_identifier(name) {
        return false;
    }
    for o in table {
        if o.name == name {
            return false;
        }
        // binary operators are matched without look-ahead: a name starting with one is split
        if o.bin.is_some() && name.starts_with(o.name) {
            return false;
        }
    }
    true
}

pub fn gen_var_pool(t: &mut Tape, table: &[OpSpec], max_vars: usize, weird_pct: u32) -> VarPool {
    let n = t.choose(max_vars + 1);
    let mut names: Vec<String> = vec![];
    for i in 0..n {
        let name = if t.chance(weird_pct) {
            t.pick(&BRACED_NAMES).to_string()
        } else if i < 3 && !t.chance(40) {
            ["x", "y", "z"][i].to_string()
        } else {
            t.pick(&BARE_NAMES).to_string()
        };
        if !names.contains(&name) {
            names.push(name);
        }
    }
    let bare_ok = names.iter().map(|n| bare_name_ok(n, table)).collect();
    VarPool { names, bare_ok }
}

pub const LITERALS: [&str; 12] = ["1", "2", "3", "0", "7", "10", "3.", "0.5", ".5", "03.50", "1.25", "42"];

#[derive(Clone, Debug)]
pub struct TreeCfg {
    pub max_operands: usize,
    /// percentage of leaves that are literals or constants
    pub lit_pct: u32,
    pub unary_pct: u32,
    /// weights of the shapes: random splits, left-deep chain, right-deep nest
    pub shape_weights: [u32; 3],
    /// literal spellings to draw from
    pub lits: &'static [&'static str],
    /// percentage of nodes that additionally get a tower of 14-43 unary operators (beyond the 16
    /// unary operators a node stores inline); 0 = never, and then no tape entry is consumed
    pub tower_pct: u32,
}
impl Default for TreeCfg {
    fn default() -> Self {
        TreeCfg { max_operands: 8, lit_pct: 45, unary_pct: 20, shape_weights: [6, 2, 1], lits: &LITERALS, tower_pct: 0 }
    }
}

pub struct TableIdx {
    pub bins: Vec<usize>,
    pub uns: Vec<usize>,
    pub consts: Vec<usize>,
}
impl TableIdx {
    pub fn new(table: &[OpSpec]) -> Self {
        TableIdx {
            bins: (0..table.len()).filter(|i| table[*i].bin.is_some()).collect(),
            uns: (0..table.len()).filter(|i| table[*i].unary).collect(),
            consts: (0..table.len()).filter(|i| table[*i].constant).collect(),
        }
    }
}

fn gen_leaf(t: &mut Tape, ti: &TableIdx, nvars: usize, cfg: &TreeCfg) -> Tree {
    if nvars == 0 || t.chance(cfg.lit_pct) {
        if !ti.consts.is_empty() && t.chance(20) {
            Tree::Const(*t.pick(&ti.consts))
        } else {
            Tree::Num(t.pick(cfg.lits).to_string())
        }
    } else {
        Tree::Var(t.choose(nvars))
    }
}

fn wrap_unary(t: &mut Tape, ti: &TableIdx, cfg: &TreeCfg, mut tr: Tree) -> Tree {
    if ti.uns.is_empty() {
        return tr;
    }
    let mut pct = cfg.unary_pct;
    while t.chance(pct) {
        tr = Tree::Un(*t.pick(&ti.uns), Box::new(tr));
        pct = 35; // compositions of length >= 2 are common once a unary operator is there
    }
    if cfg.tower_pct > 0 && t.chance(cfg.tower_pct) {
        let k = 14 + t.choose(30);
        for _ in 0..k {
            tr = Tree::Un(*t.pick(&ti.uns), Box::new(tr));
        }
    }
    tr
}

/// `n` = number of operand leaves. shape: 0 random splits, 1 left-deep chain, 2 right-deep nest
pub fn gen_tree_n(t: &mut Tape, ti: &TableIdx, nvars: usize, cfg: &TreeCfg, n: usize, shape: usize) -> Tree {
    let tr = if n <= 1 {
        gen_leaf(t, ti, nvars, cfg)
    } else {
        let l = match shape {
            1 => n - 1,
            2 => 1,
            _ => 1 + t.choose(n - 1),
        };
        let op = *t.pick(&ti.bins);
        let left = gen_tree_n(t, ti, nvars, cfg, l, shape);
        let right = gen_tree_n(t, ti, nvars, cfg, n - l, shape);
        Tree::Bin(op, Box::new(left), Box::new(right))
    };
    wrap_unary(t, ti, cfg, tr)
}

pub fn gen_tree(t: &mut Tape, table: &[OpSpec], nvars: usize, cfg: &TreeCfg) -> Tree {
    let ti = TableIdx::new(table);
    let n = 1 + t.choose(cfg.max_operands);
    let shape = t.weighted(&cfg.shape_weights);
    gen_tree_n(t, &ti, nvars, cfg, n, shape)
}

// ---------------------------------------------------------------------------------------------
// rendering

#[derive(Clone, Copy, Debug, PartialEq, Eq)]
pub enum TokKind {
    Open,
    Close,
    Comma,
    Op,
    Operand,
}
#[derive(Clone, Debug)]
pub struct Tok {
    pub text: String,
    pub kind: TokKind,
    /// for Operand tokens: is it a braced variable (opaque text)
    pub braced: bool,
}
impl Tok {
    pub fn open() -> Tok {
        Tok { text: "(".into(), kind: TokKind::Open, braced: false }
    }
    pub fn close() -> Tok {
        Tok { text: ")".into(), kind: TokKind::Close, braced: false }
    }
    pub fn comma() -> Tok {
        Tok { text: ",".into(), kind: TokKind::Comma, braced: false }
    }
    pub fn op(s: &str) -> Tok {
        Tok { text: s.into(), kind: TokKind::Op, braced: false }
    }
    pub fn operand(s: &str) -> Tok {
        Tok { text: s.into(), kind: TokKind::Operand, braced: false }
    }
    pub fn braced(name: &str) -> Tok {
        Tok { text: format!("{{{name}}}"), kind: TokKind::Operand, braced: true }
    }
}

#[derive(Clone, Debug)]
pub struct RenderCfg {
    pub redundant_paren_pct: u32,
    pub call_pct: u32,
    /// also symbolic binary operators in call form
    pub sym_call_pct: u32,
    pub brace_pct: u32,
    pub juxta_pct: u32,
    /// percentage of token boundaries where a space is inserted although not needed
    pub space_pct: u32,
}
impl Default for RenderCfg {
    fn default() -> Self {
        RenderCfg { redundant_paren_pct: 10, call_pct: 0, sym_call_pct: 0, brace_pct: 30, juxta_pct: 50, space_pct: 30 }
    }
}

#[derive(Default, Clone, Debug)]
pub struct RenderInfo {
    pub n_calls: usize,
    pub call_in_second_arg: bool,
    pub call_in_first_arg: bool,
    pub call_in_extra_parens: bool,
    pub call_under_unary: bool,
    pub call_as_infix_operand: bool,
    pub sym_call: bool,
    pub juxtaposition: bool,
    pub redundant_parens: usize,
    pub braced_and_bare: bool,
    pub max_depth: usize,
}

pub struct Renderer<'a, 'b> {
    pub table: &'a [OpSpec],
    pub pool: &'a VarPool,
    pub cfg: &'a RenderCfg,
    pub tape: &'a mut Tape<'b>,
    pub info: RenderInfo,
    spell: Vec<(bool, bool)>,
}

#[derive(Clone, Copy, PartialEq, Eq)]
enum Ctx {
    Top,
    InfixOperand,
    UnaryOperand,
    CallArg1,
    CallArg2,
    Parens,
}

impl<'a, 'b> Renderer<'a, 'b> {
    pub fn new(table: &'a [OpSpec], pool: &'a VarPool, cfg: &'a RenderCfg, tape: &'a mut Tape<'b>) -> Self {
        let n = pool.names.len();
        Renderer { table, pool, cfg, tape, info: RenderInfo::default(), spell: vec![(false, false); n] }
    }
    fn prio(&self, tr: &Tree) -> Option<i64> {
        match tr {
            Tree::Bin(o, _, _) => Some(self.table[*o].bin.unwrap().0),
            _ => None,
        }
    }
    pub fn render_tokens(&mut self, tr: &Tree) -> Vec<Tok> {
        let mut out = vec![];
        self.rec(tr, Ctx::Top, 0, &mut out);
        self.info.braced_and_bare = self.spell.iter().any(|(a, b)| *a && *b);
        out
    }
    /// returns true if the sub-tree was rendered as a call
    fn rec(&mut self, tr: &Tree, ctx: Ctx, depth: usize, out: &mut Vec<Tok>) -> bool {
        self.info.max_depth = self.info.max_depth.max(depth);
        let redundant = self.tape.chance(self.cfg.redundant_paren_pct);
        if redundant {
            self.info.redundant_parens += 1;
            out.push(Tok::open());
            let was_call = self.rec_inner(tr, Ctx::Parens, depth + 1, out);
            out.push(Tok::close());
            if was_call {
                self.info.call_in_extra_parens = true;
            }
            false
        } else {
            self.rec_inner(tr, ctx, depth, out)
        }
    }
    fn rec_inner(&mut self, tr: &Tree, ctx: Ctx, depth: usize, out: &mut Vec<Tok>) -> bool {
        match tr {
            Tree::Num(s) => {
                out.push(Tok::operand(s));
                false
            }
            Tree::Const(c) => {
                out.push(Tok::operand(self.table[*c].name));
                false
            }
            Tree::Var(i) => {
                let name = &self.pool.names[*i];
                if self.pool.bare_ok[*i] && !self.tape.chance(self.cfg.brace_pct) {
                    self.spell[*i].0 = true;
                    out.push(Tok::operand(name));
                } else {
                    self.spell[*i].1 = true;
                    out.push(Tok::braced(name));
                }
                false
            }
            Tree::Un(o, a) => {
                out.push(Tok::op(self.table[*o].name));
                let is_bin_child = matches!(**a, Tree::Bin(..));
                // a binary operand needs parentheses unless it is rendered as a call; whether
                // it will be a call is decided inside, so binary children always get parens
                // unless we decide for call form here.
                if is_bin_child {
                    if self.decide_call(a) {
                        self.render_call(a, depth, out);
                        self.info.call_under_unary = true;
                        self.info.juxtaposition = true;
                    } else {
                        out.push(Tok::open());
                        let was_call = self.rec(a, Ctx::UnaryOperand, depth + 1, out);
                        out.push(Tok::close());
                        if was_call {
                            self.info.call_under_unary = true;
                        }
                    }
                } else if self.tape.chance(self.cfg.juxta_pct) {
                    self.info.juxtaposition = true;
                    self.rec(a, Ctx::UnaryOperand, depth, out);
                } else {
                    out.push(Tok::open());
                    self.rec(a, Ctx::UnaryOperand, depth + 1, out);
                    out.push(Tok::close());
                }
                false
            }
            Tree::Bin(o, a, b) => {
                if self.decide_call(tr) {
                    self.render_call(tr, depth, out);
                    match ctx {
                        Ctx::CallArg1 => self.info.call_in_first_arg = true,
                        Ctx::CallArg2 => self.info.call_in_second_arg = true,
                        Ctx::InfixOperand => self.info.call_as_infix_operand = true,
                        Ctx::UnaryOperand => self.info.call_under_unary = true,
                        _ => {}
                    }
                    true
                } else {
                    let p = self.table[*o].bin.unwrap().0;
                    // documented rules: higher priority first, left-to-right among equals
                    let lp = self.prio(a).map(|q| q < p).unwrap_or(false);
                    let rp = self.prio(b).map(|q| q <= p).unwrap_or(false);
                    self.operand_maybe_parens(a, lp, depth, out);
                    out.push(Tok::op(self.table[*o].name));
                    self.operand_maybe_parens(b, rp, depth, out);
                    false
                }
            }
        }
    }
    fn operand_maybe_parens(&mut self, tr: &Tree, need: bool, depth: usize, out: &mut Vec<Tok>) {
        if need {
            // a call needs no parentheses: decide for the call first
            if self.decide_call(tr) {
                self.render_call(tr, depth, out);
                self.info.call_as_infix_operand = true;
            } else {
                out.push(Tok::open());
                // the sub-tree is now protected by parentheses: render its top node infix
                self.render_infix_top(tr, depth + 1, out);
                out.push(Tok::close());
            }
        } else {
            self.rec(tr, Ctx::InfixOperand, depth, out);
        }
    }
    /// renders a Bin node in infix form (no further call decision for the top node)
    fn render_infix_top(&mut self, tr: &Tree, depth: usize, out: &mut Vec<Tok>) {
        if let Tree::Bin(o, a, b) = tr {
            let p = self.table[*o].bin.unwrap().0;
            let lp = self.prio(a).map(|q| q < p).unwrap_or(false);
            let rp = self.prio(b).map(|q| q <= p).unwrap_or(false);
            self.operand_maybe_parens(a, lp, depth, out);
            out.push(Tok::op(self.table[*o].name));
            self.operand_maybe_parens(b, rp, depth, out);
        } else {
            self.rec(tr, Ctx::Parens, depth, out);
        }
    }
    fn decide_call(&mut self, tr: &Tree) -> bool {
        if let Tree::Bin(o, _, _) = tr {
            let name = self.table[*o].name;
            if is_alpha_name(name) {
                self.cfg.call_pct > 0 && self.tape.chance(self.cfg.call_pct)
            } else {
                self.cfg.sym_call_pct > 0 && self.tape.chance(self.cfg.sym_call_pct)
            }
        } else {
            false
        }
    }
    fn render_call(&mut self, tr: &Tree, depth: usize, out: &mut Vec<Tok>) {
        if let Tree::Bin(o, a, b) = tr {
            let name = self.table[*o].name;
            self.info.n_calls += 1;
            if !is_alpha_name(name) {
                self.info.sym_call = true;
            }
            out.push(Tok::op(name));
            out.push(Tok::open());
            self.rec(a, Ctx::CallArg1, depth + 1, out);
            out.push(Tok::comma());
            self.rec(b, Ctx::CallArg2, depth + 1, out);
            out.push(Tok::close());
        }
    }
}

fn last_char(s: &str) -> char {
    s.chars().last().unwrap_or(' ')
}
fn first_char(s: &str) -> char {
    s.chars().next().unwrap_or(' ')
}
fn identish(c: char) -> bool {
    is_ident_char(c) || c == '.' || c.is_alphanumeric()
}

/// Must there be a space between the two tokens so that the documented tokenisation is the
/// intended one? (conservative)
pub fn must_space(a: &Tok, b: &Tok, table: &[OpSpec]) -> bool {
    if a.braced || matches!(a.kind, TokKind::Open | TokKind::Close | TokKind::Comma) {
        return false;
    }
    if matches!(b.kind, TokKind::Open | TokKind::Close | TokKind::Comma) || b.braced {
        // `name(`: the look-ahead never merges an identifier with a parenthesis or brace
        return false;
    }
    if identish(last_char(&a.text)) && identish(first_char(&b.text)) {
        return true;
    }
    if a.kind == TokKind::Op || b.kind == TokKind::Op {
        // would a longer table name match across the boundary?
        let joined = format!("{}{}", a.text, b.text);
        // any table name that matches at a position inside `a` and reaches beyond `a`
        for (start, _) in a.text.char_indices() {
            for o in table {
                let n = o.name;
                if joined[start..].starts_with(n) && start + n.len() > a.text.len() {
                    return true;
                }
            }
        }
    }
    false
}

pub fn join_tokens(toks: &[Tok], table: &[OpSpec], tape: &mut Tape, space_pct: u32) -> String {
    let mut s = String::new();
    if tape.chance(space_pct / 3) {
        s.push(' ');
    }
    for (i, tk) in toks.iter().enumerate() {
        if i > 0 {
            if must_space(&toks[i - 1], tk, table) {
                s.push(' ');
                if tape.chance(space_pct / 3) {
                    s.push(' ');
                }
            } else if tape.chance(space_pct) {
                s.push(' ');
                if tape.chance(space_pct / 3) {
                    s.push(' ');
                }
            }
        }
        s.push_str(&tk.text);
    }
    if tape.chance(space_pct / 3) {
        s.push(' ');
    }
    s
}

pub fn render(
    tr: &Tree,
    table: &[OpSpec],
    pool: &VarPool,
    cfg: &RenderCfg,
    tape: &mut Tape,
) -> (String, Vec<Tok>, RenderInfo) {
    let (toks, info) = {
        let mut r = Renderer::new(table, pool, cfg, tape);
        let toks = r.render_tokens(tr);
        (toks, r.info)
    };
    let text = join_tokens(&toks, table, tape, cfg.space_pct);
    (text, toks, info)
}

/// Fully parenthesised infix rendering `((a) op (b))`, every variable braced, single spaces.
pub fn render_canonical(tr: &Tree, table: &[OpSpec], pool: &VarPool) -> String {
    match tr {
        Tree::Num(s) => s.clone(),
        Tree::Const(c) => table[*c].name.to_string(),
        Tree::Var(i) => format!("{{{}}}", pool.names[*i]),
        Tree::Un(o, a) => format!("{} ({})", table[*o].name, render_canonical(a, table, pool)),
        Tree::Bin(o, a, b) => format!(
            "(({}) {} ({}))",
            render_canonical(a, table, pool),
            table[*o].name,
            render_canonical(b, table, pool)
        ),
    }
}

// ---------------------------------------------------------------------------------------------
// reference semantics and tree facts

pub fn reference(tr: &Tree) -> Term {
    match tr {
        Tree::Num(s) => Term::Lit(s.clone()),
        Tree::Const(c) => Term::Atom(CONST_BASE + *c as u32),
        Tree::Var(i) => Term::Atom(*i as u32),
        Tree::Un(o, a) => Term::un(*o, reference(a)),
        Tree::Bin(o, a, b) => Term::bin(*o, reference(a), reference(b)),
    }
}

pub fn vars_used(tr: &Tree, out: &mut BTreeSet<usize>) {
    match tr {
        Tree::Var(i) => {
            out.insert(*i);
        }
        Tree::Un(_, a) => vars_used(a, out),
        Tree::Bin(_, a, b) => {
            vars_used(a, out);
            vars_used(b, out)
        }
        _ => {}
    }
}

/// Sorted distinct names of the variables in the tree and the values (atoms by pool index) in
/// that order — the documented binding rule computed independently of the library.
pub fn expected_vars(tr: &Tree, pool: &VarPool) -> (Vec<String>, Vec<Term>) {
    let mut used = BTreeSet::new();
    vars_used(tr, &mut used);
    let mut v: Vec<(String, usize)> = used.iter().map(|i| (pool.names[*i].clone(), *i)).collect();
    v.sort();
    (v.iter().map(|x| x.0.clone()).collect(), v.iter().map(|x| Term::Atom(x.1 as u32)).collect())
}

pub fn n_operands(tr: &Tree) -> usize {
    match tr {
        Tree::Un(_, a) => n_operands(a),
        Tree::Bin(_, a, b) => n_operands(a) + n_operands(b),
        _ => 1,
    }
}
pub fn n_bin(tr: &Tree) -> usize {
    match tr {
        Tree::Un(_, a) => n_bin(a),
        Tree::Bin(_, a, b) => 1 + n_bin(a) + n_bin(b),
        _ => 0,
    }
}
pub fn has_var(tr: &Tree) -> bool {
    match tr {
        Tree::Var(_) => true,
        Tree::Un(_, a) => has_var(a),
        Tree::Bin(_, a, b) => has_var(a) || has_var(b),
        _ => false,
    }
}
pub fn depth(tr: &Tree) -> usize {
    match tr {
        Tree::Un(_, a) => 1 + depth(a),
        Tree::Bin(_, a, b) => 1 + depth(a).max(depth(b)),
        _ => 0,
    }
}

#[derive(Default, Clone, Debug)]
pub struct TreeFacts {
    pub operands: usize,
    pub equal_prio_adjacent: bool,
    pub equal_prio_mixed: bool,
    pub unary_over_group2: bool,
    pub unary_chain2: bool,
    pub adjacent_literals: bool,
    pub dual_both_roles: bool,
    pub n_lits: usize,
    pub n_vars_occ: usize,
    pub has_unary: bool,
    /// length of the longest composition of unary operators
    pub max_unary_chain: usize,
}

pub fn tree_facts(tr: &Tree, table: &[OpSpec]) -> TreeFacts {
    let mut f = TreeFacts { operands: n_operands(tr), ..Default::default() };
    let mut leaves: Vec<bool> = vec![];
    let mut un_roles: BTreeSet<usize> = BTreeSet::new();
    let mut bin_roles: BTreeSet<usize> = BTreeSet::new();
    fn rec(
        tr: &Tree,
        table: &[OpSpec],
        f: &mut TreeFacts,
        leaves: &mut Vec<bool>,
        un_roles: &mut BTreeSet<usize>,
        bin_roles: &mut BTreeSet<usize>,
    ) {
        match tr {
            Tree::Num(_) | Tree::Const(_) => {
                leaves.push(true);
                f.n_lits += 1;
            }
            Tree::Var(_) => {
                leaves.push(false);
                f.n_vars_occ += 1;
            }
            Tree::Un(o, a) => {
                f.has_unary = true;
                un_roles.insert(*o);
                if let Tree::Bin(_, l, r) = &**a {
                    if matches!(**l, Tree::Bin(..)) || matches!(**r, Tree::Bin(..)) {
                        f.unary_over_group2 = true;
                    }
                }
                if matches!(**a, Tree::Un(..)) {
                    f.unary_chain2 = true;
                }
                let mut len = 1;
                let mut cur = &**a;
                while let Tree::Un(_, b) = cur {
                    len += 1;
                    cur = &**b;
                }
                f.max_unary_chain = f.max_unary_chain.max(len);
                rec(a, table, f, leaves, un_roles, bin_roles);
            }
            Tree::Bin(o, a, b) => {
                bin_roles.insert(*o);
                let p = table[*o].bin.unwrap();
                for child in [a, b] {
                    if let Tree::Bin(o2, _, _) = &**child {
                        let p2 = table[*o2].bin.unwrap();
                        if p2.0 == p.0 {
                            f.equal_prio_adjacent = true;
                            if o2 != o && (p.1 || p2.1) {
                                f.equal_prio_mixed = true;
                            }
                        }
                    }
                }
                rec(a, table, f, leaves, un_roles, bin_roles);
                rec(b, table, f, leaves, un_roles, bin_roles);
            }
        }
    }
    rec(tr, table, &mut f, &mut leaves, &mut un_roles, &mut bin_roles);
    f.adjacent_literals = leaves.windows(2).any(|w| w[0] && w[1]);
    f.dual_both_roles = un_roles.intersection(&bin_roles).next().is_some();
    f
}

/// Operators occurring in the tree (by name), split by role.
pub fn ops_in_tree(tr: &Tree, table: &[OpSpec], un: &mut BTreeSet<String>, bin: &mut BTreeSet<String>) {
    match tr {
        Tree::Un(o, a) => {
            un.insert(table[*o].name.to_string());
            ops_in_tree(a, table, un, bin);
        }
        Tree::Bin(o, a, b) => {
            bin.insert(table[*o].name.to_string());
            ops_in_tree(a, table, un, bin);
            ops_in_tree(b, table, un, bin);
        }
        _ => {}
    }
}
/// Operators applied to a variable-dependent operand (these can never be folded away).
pub fn ops_on_vars(tr: &Tree, table: &[OpSpec], un: &mut BTreeSet<String>, bin: &mut BTreeSet<String>) {
    match tr {
        Tree::Un(o, a) => {
            if has_var(a) {
                un.insert(table[*o].name.to_string());
            }
            ops_on_vars(a, table, un, bin);
        }
        Tree::Bin(o, a, b) => {
            if has_var(a) || has_var(b) {
                bin.insert(table[*o].name.to_string());
            }
            ops_on_vars(a, table, un, bin);
            ops_on_vars(b, table, un, bin);
        }
        _ => {}
    }
}
/// Is there a variable-free sub-tree containing an operator?
pub fn has_constant_subexpr(tr: &Tree) -> bool {
    match tr {
        Tree::Un(_, a) => !has_var(a) || has_constant_subexpr(a),
        Tree::Bin(_, a, b) => {
            (!has_var(a) && !has_var(b)) || has_constant_subexpr(a) || has_constant_subexpr(b)
        }
        _ => false,
    }
}

pub fn tree_to_string(tr: &Tree, table: &[OpSpec], pool: &VarPool) -> String {
    match tr {
        Tree::Num(s) => s.clone(),
        Tree::Const(c) => table[*c].name.to_string(),
        Tree::Var(i) => format!("{{{}}}", pool.names[*i]),
        Tree::Un(o, a) => format!("{}[{}]", table[*o].name, tree_to_string(a, table, pool)),
        Tree::Bin(o, a, b) => format!(
            "({} {} {})",
            tree_to_string(a, table, pool),
            table[*o].name,
            tree_to_string(b, table, pool)
        ),
    }
}
