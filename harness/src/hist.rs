//! Stateful engine over the term algebra: a pool of parsed expressions (flat and deep lineage side
//! by side with the reference tree) and generated histories of operator applications,
//! substitutions and conversions. After every step the variable list and the symbolic value are
//! compared with the reference tree; optionally the printed text is parsed back (C12).
use crate::gen::*;
use crate::lexer::{ref_lex, term_literal, LTok};
use crate::runner::*;
use crate::tape::Tape;
use crate::tcase::*;
use crate::term::{describe_table, norm, set_table, OpSpec};
use exmex::prelude::*;
use serde_json::{json, Value};
use std::collections::BTreeSet;

#[derive(Clone, Debug)]
pub struct HistCfg {
    pub prop: &'static str,
    /// weights: unary, binary, subs, convert, unknown-name, helper-method, overloaded operator
    pub weights: [u32; 7],
    pub max_steps: usize,
    pub check_print: bool,
    pub check_serde: bool,
    pub weird_pct: u32,
    /// percentage of operand nodes that carry a tower of 14-43 unary operators (0 = never; see `TreeCfg`)
    pub tower_pct: u32,
}

pub fn leak(s: String) -> &'static str {
    Box::leak(s.into_boxed_str())
}

/// Would the deep form's printing (operator names concatenated without separator) re-tokenise
/// differently for some binary operator directly followed by a unary operator? (known finding F11)
pub fn print_ambiguous(table: &[OpSpec]) -> bool {
    for (bi, b) in table.iter().enumerate() {
        if b.bin.is_none() {
            continue;
        }
        for (ui, u) in table.iter().enumerate() {
            if !u.unary {
                continue;
            }
            let s = format!("{}{}(", b.name, u.name);
            match ref_lex(&s, table, &term_literal) {
                Ok(toks) => {
                    let ok = toks.len() == 3 && toks[0] == LTok::Op(bi) && toks[1] == LTok::Op(ui) && toks[2] == LTok::Open;
                    if !ok {
                        return true;
                    }
                }
                Err(_) => return true,
            }
        }
    }
    false
}

#[derive(Clone)]
pub struct Entry {
    pub tree: Tree,
    pub f: F,
    pub d: D<'static>,
}

pub struct World {
    pub table: Vec<OpSpec>,
    pub pool: VarPool,
    pub entries: Vec<Entry>,
    pub history: Vec<String>,
}

impl World {
    pub fn describe(&self) -> Value {
        json!({"table": describe_table(&self.table), "table_spec": table_spec(&self.table), "history": self.history})
    }
}

pub fn subst_tree(tr: &Tree, m: &dyn Fn(usize) -> Option<Tree>) -> Tree {
    match tr {
        Tree::Var(i) => m(*i).unwrap_or(Tree::Var(*i)),
        Tree::Un(o, a) => Tree::Un(*o, Box::new(subst_tree(a, m))),
        Tree::Bin(o, a, b) => Tree::Bin(*o, Box::new(subst_tree(a, m)), Box::new(subst_tree(b, m))),
        t => t.clone(),
    }
}

fn check_entry(w: &World, e: &Entry, cfg: &HistCfg, st: &mut Stats, printable: bool) -> CaseResult {
    let prop = cfg.prop;
    let (names, vals) = expected_vars(&e.tree, &w.pool);
    let refv = norm(&reference(&e.tree), &w.table);
    let mk = |k: &str, msg: String| {
        let mut c = w.describe();
        c["expected_tree"] = json!(tree_to_string(&e.tree, &w.table, &w.pool));
        fail(&format!("{prop}/{k}"), msg, c)
    };
    // variables
    if e.f.var_names() != &names[..] {
        return Err(mk("flat/var-names", format!("after {:?}: flat var_names {:?}, expected the sorted union {names:?}", w.history, e.f.var_names())));
    }
    if e.d.var_names() != &names[..] {
        return Err(mk("deep/var-names", format!("after {:?}: deep var_names {:?}, expected the sorted union {names:?}", w.history, e.d.var_names())));
    }
    // values
    for (form, v) in [("flat", ex_msg(e.f.eval(&vals))), ("deep", ex_msg(e.d.eval(&vals)))] {
        match v {
            Err(er) => return Err(mk(&format!("{form}/eval-error"), format!("after {:?}: {form} eval fails: {er}", w.history))),
            Ok(v) => {
                let vn = norm(&v, &w.table);
                if vn != refv {
                    return Err(mk(
                        &format!("{form}/wrong-value"),
                        format!("after {:?}: {form} value {vn:?}, operator applied to the operands' values gives {refv:?}", w.history),
                    ));
                }
            }
        }
    }
    if cfg.check_print {
        if !printable {
            st.excluded("F11: table in which a binary name followed by a unary name re-tokenises differently");
        } else {
            for (form, text) in [("deep", e.d.unparse().to_string()), ("flat", e.f.unparse().to_string())] {
                let text: &str = leak(text);
                match F::parse(text) {
                    Err(er) => {
                        return Err(mk(&format!("print/{form}/reparse-error"), format!("after {:?}: printed {form} text `{text}` does not parse back: {}", w.history, er.msg())))
                    }
                    Ok(g) => {
                        if g.var_names() != &names[..] {
                            return Err(mk(
                                &format!("print/{form}/var-names"),
                                format!("after {:?}: printed {form} text `{text}` parses back with variables {:?}, expected {names:?}", w.history, g.var_names()),
                            ));
                        }
                        match ex_msg(g.eval(&vals)) {
                            Ok(v) if norm(&v, &w.table) == refv => {}
                            other => {
                                return Err(mk(
                                    &format!("print/{form}/value"),
                                    format!("after {:?}: printed {form} text `{text}` parses back to {other:?}, expected {refv:?}", w.history),
                                ))
                            }
                        }
                        // deep parser accepts it too
                        if let Err(er) = D::parse(text) {
                            return Err(mk(&format!("print/{form}/deep-reparse-error"), format!("printed text `{text}` is rejected by DeepEx::parse: {}", er.msg())));
                        }
                    }
                }
            }
        }
    }
    if cfg.check_serde && printable {
        match serde_json::to_string(&e.f) {
            Err(er) => return Err(mk("serde/serialize-error", format!("serialising fails: {er}"))),
            Ok(js) => {
                let js: &'static str = leak(js);
                // borrowed-string path (from_str) or owned-string path (from_reader) of the visitor
                let owned = js.len() % 2 == 1;
                let back = if owned { serde_json::from_reader::<_, F>(js.as_bytes()) } else { serde_json::from_str::<F>(js) };
                match back {
                    Err(er) => return Err(mk("serde/deserialize-error", format!("after {:?}: `{js}` does not deserialise: {er}", w.history))),
                    Ok(g) => {
                        if g.unparse() != e.f.unparse() || g.var_names() != e.f.var_names() {
                            return Err(mk(
                                "serde/differs",
                                format!("after {:?}: round trip gives `{}` over {:?}, original `{}` over {:?}", w.history, g.unparse(), g.var_names(), e.f.unparse(), e.f.var_names()),
                            ));
                        }
                        match ex_msg(g.eval(&vals)) {
                            Ok(v) if norm(&v, &w.table) == refv => {}
                            other => return Err(mk("serde/value", format!("after {:?}: deserialised expression evaluates to {other:?}, expected {refv:?}", w.history))),
                        }
                    }
                }
            }
        }
    }
    Ok(())
}

pub struct HistOutcome {
    pub steps: usize,
    pub n_subs: usize,
    pub subs_self_ref: bool,
    pub subs_repeated_var: bool,
    pub n_bin_diff_vars: usize,
    pub unknown_names: usize,
    pub printed_differs: bool,
    pub printable: bool,
    pub world: Value,
}

pub fn run_history(tape: &[u32], st: &mut Stats, cfg: &HistCfg) -> Result<HistOutcome, Fail> {
    let mut t = Tape::new(tape);
    let table = gen_table(&mut t, &TableCfg { max_bin: 6, max_un: 4, max_const: 2, ..TableCfg::default() });
    set_table(&table);
    // one history in twelve works on a wide pool: operands with more than 16 variables each and in their union
    let wide = t.chance(8);
    let pool = if wide {
        let n = 17 + t.choose(10);
        let names: Vec<String> = (0..n).map(|i| format!("w{:02}", (i * 7) % 31)).collect();
        let bare_ok = names.iter().map(|n| bare_name_ok(n, &table)).collect();
        VarPool { names, bare_ok }
    } else {
        gen_var_pool(&mut t, &table, 5, cfg.weird_pct)
    };
    let ti = TableIdx::new(&table);
    let printable = !print_ambiguous(&table);
    let tcfg = if wide {
        TreeCfg { max_operands: 40, lit_pct: 8, unary_pct: 5, ..TreeCfg::default() }
    } else {
        TreeCfg { max_operands: 5, lit_pct: 30, unary_pct: 15, tower_pct: cfg.tower_pct, ..TreeCfg::default() }
    };
    st.class_if(wide && pool.names.len() > 16, "pool of more than 16 variables");
    let mut w = World { table: table.clone(), pool: pool.clone(), entries: vec![], history: vec![] };
    let mut out = HistOutcome { steps: 0, n_subs: 0, subs_self_ref: false, subs_repeated_var: false, n_bin_diff_vars: 0, unknown_names: 0, printed_differs: false, printable, world: Value::Null };
    let prop = cfg.prop;
    // initial pool
    for _ in 0..3 {
        let tree = gen_tree(&mut t, &table, pool.names.len(), &tcfg);
        if cfg.tower_pct > 0 {
            st.class_if(tree_facts(&tree, &table).max_unary_chain > 16, "initial operand with a unary composition longer than 16");
        }
        let (text, _, _) = render(&tree, &table, &pool, &RenderCfg::default(), &mut t);
        let text: &'static str = leak(text);
        // a quarter of the flat lineages start from an unfolded flat expression
        let wo = t.chance(25);
        w.history.push(if wo { format!("parse `{text}` (flat: parse_wo_compile)") } else { format!("parse `{text}`") });
        let parsed = guard(|| -> Result<(F, D<'static>), String> {
            Ok((if wo { ex_msg(F::parse_wo_compile(text))? } else { ex_msg(F::parse(text))? }, ex_msg(D::parse(text))?))
        });
        let (f, d) = match parsed {
            Err(p) => return Err(fail(&format!("{prop}/parse-panic"), format!("`{text}` panics: {p}"), w.describe())),
            Ok(Err(e)) => return Err(fail(&format!("{prop}/parse-error"), format!("well-formed `{text}` rejected: {e}"), w.describe())),
            Ok(Ok(x)) => x,
        };
        if cfg.check_print && f.unparse() != text {
            return Err(fail(&format!("{prop}/print/flat-text-changed"), format!("FlatEx::parse(`{text}`).unparse() = `{}`", f.unparse()), w.describe()));
        }
        let e = Entry { tree, f, d };
        if let Err(fl) = guard(|| check_entry(&w, &e, cfg, st, printable)).unwrap_or_else(|p| Err(fail(&format!("{prop}/panic"), format!("panic: {p}"), w.describe()))) {
            return Err(fl);
        }
        if e.d.unparse() != text {
            out.printed_differs = true;
        }
        w.entries.push(e);
    }
    let steps = 1 + t.choose(cfg.max_steps);
    for _ in 0..steps {
        let kind = t.weighted(&cfg.weights);
        let a = t.choose(w.entries.len());
        let b = t.choose(w.entries.len());
        let ea = w.entries[a].clone();
        let eb = w.entries[b].clone();
        // half of the steps consume operands that have just been evaluated and printed (the very
        // value, no clone in between): evaluation must not leave anything behind in an expression
        let warm = t.chance(50);
        let (_, wa) = expected_vars(&ea.tree, &w.pool);
        let (_, wb) = expected_vars(&eb.tree, &w.pool);
        let fa = || {
            let x = ea.f.clone();
            if warm {
                let _ = x.eval(&wa);
                let _ = x.unparse().len();
            }
            x
        };
        let da = || {
            let x = ea.d.clone();
            if warm {
                let _ = x.eval(&wa);
                let _ = x.unparse().len();
            }
            x
        };
        let fb = || {
            let x = eb.f.clone();
            if warm {
                let _ = x.eval(&wb);
            }
            x
        };
        let db = || {
            let x = eb.d.clone();
            if warm {
                let _ = x.eval(&wb);
            }
            x
        };
        let step: Result<Result<Option<Entry>, String>, String> = match kind {
            0 if !ti.uns.is_empty() => {
                let o = *t.pick(&ti.uns);
                let name = table[o].name;
                w.history.push(format!("#{} = operate_unary(#{a}, {name})", w.entries.len()));
                guard(|| {
                    Ok(Some(Entry {
                        tree: Tree::Un(o, Box::new(ea.tree.clone())),
                        f: ex_msg(fa().operate_unary(name))?,
                        d: ex_msg(da().operate_unary(name))?,
                    }))
                })
            }
            2 => {
                // substitution: a partial map from the variables to pool entries
                let nv = pool.names.len();
                let mask: Vec<bool> = (0..nv).map(|_| t.chance(40)).collect();
                let picks: Vec<usize> = (0..nv).map(|_| t.choose(w.entries.len())).collect();
                let mut used = BTreeSet::new();
                vars_used(&ea.tree, &mut used);
                let mut occ = vec![0usize; nv];
                fn count(tr: &Tree, occ: &mut Vec<usize>) {
                    match tr {
                        Tree::Var(i) => occ[*i] += 1,
                        Tree::Un(_, x) => count(x, occ),
                        Tree::Bin(_, x, y) => {
                            count(x, occ);
                            count(y, occ)
                        }
                        _ => {}
                    }
                }
                count(&ea.tree, &mut occ);
                let mut map_desc = vec![];
                for i in 0..nv {
                    if mask[i] && used.contains(&i) {
                        out.n_subs += 1;
                        let mut ru = BTreeSet::new();
                        vars_used(&w.entries[picks[i]].tree, &mut ru);
                        // the replacement mentions a replaced variable (simultaneity is observable)
                        if ru.iter().any(|r| mask[*r] && used.contains(r)) {
                            out.subs_self_ref = true;
                        }
                        if occ[i] >= 2 {
                            out.subs_repeated_var = true;
                        }
                        map_desc.push(format!("{{{}}} -> #{}", pool.names[i], picks[i]));
                    }
                }
                w.history.push(format!("#{} = subs(#{a}, [{}])", w.entries.len(), map_desc.join(", ")));
                let entries = w.entries.clone();
                let names = pool.names.clone();
                let m = |i: usize| if mask[i] { Some(entries[picks[i]].tree.clone()) } else { None };
                let tree = subst_tree(&ea.tree, &m);
                guard(|| {
                    let mut sf = |name: &str| -> Option<F> {
                        let i = names.iter().position(|n| n == name)?;
                        if mask[i] {
                            Some(entries[picks[i]].f.clone())
                        } else {
                            None
                        }
                    };
                    let mut sd = |name: &str| -> Option<D<'static>> {
                        let i = names.iter().position(|n| n == name)?;
                        if mask[i] {
                            Some(entries[picks[i]].d.clone())
                        } else {
                            None
                        }
                    };
                    Ok(Some(Entry { tree, f: ex_msg(fa().subs(&mut sf))?, d: ex_msg(da().subs(&mut sd))? }))
                })
            }
            3 => {
                w.history.push(format!("#{} = convert(#{a}) flat->deep->flat / deep->flat->deep", w.entries.len()));
                guard(|| {
                    Ok(Some(Entry {
                        tree: ea.tree.clone(),
                        f: ex_msg(F::from_deepex(ex_msg(fa().to_deepex())?))?,
                        d: ex_msg(ex_msg(F::from_deepex(da()))?.to_deepex())?,
                    }))
                })
            }
            4 => {
                // unknown operator name must be an error
                let name = ["nope", "§", "sinn", "+-+"][t.choose(4)];
                if table.iter().any(|o| o.name == name) {
                    Ok(Ok(None))
                } else {
                    out.unknown_names += 1;
                    w.history.push(format!("operate with unknown name `{name}` on #{a}"));
                    let r = guard(|| {
                        (
                            fa().operate_unary(name).is_ok(),
                            da().operate_unary(name).is_ok(),
                            fa().operate_binary(fb(), name).is_ok(),
                            da().operate_binary(db(), name).is_ok(),
                        )
                    });
                    match r {
                        Err(p) => Err(p),
                        Ok((p, q, r, s)) => {
                            if p || q || r || s {
                                return Err(fail(
                                    &format!("{prop}/unknown-name-accepted"),
                                    format!("applying the unknown operator name `{name}` returns Ok (flat unary {p}, deep unary {q}, flat binary {r}, deep binary {s})"),
                                    w.describe(),
                                ));
                            }
                            Ok(Ok(None))
                        }
                    }
                }
            }
            5 => {
                // named helper methods of DeepEx: equal to operate_unary if the table defines the name, else Err
                let (name, idx): (&'static str, Option<usize>) = {
                    let n = ["sin", "cos", "ln", "log", "abs", "sinh", "log2", "log10"][t.choose(8)];
                    (n, table.iter().position(|o| o.name == n && o.unary))
                };
                w.history.push(format!("#{} = DeepEx::{name}() on #{a}", w.entries.len()));
                let r = guard(|| match name {
                    "sin" => da().sin(),
                    "cos" => da().cos(),
                    "ln" => da().ln(),
                    "log" => da().log(),
                    "abs" => da().abs(),
                    "sinh" => da().sinh(),
                    "log2" => da().log2(),
                    _ => da().log10(),
                });
                match (r, idx) {
                    (Err(p), _) => Err(p),
                    (Ok(Err(_)), None) => Ok(Ok(None)),
                    (Ok(Ok(_)), None) => {
                        return Err(fail(&format!("{prop}/helper-unknown-accepted"), format!("DeepEx::{name}() returns Ok although the table does not define a unary `{name}`"), w.describe()))
                    }
                    (Ok(Err(e)), Some(_)) => Ok(Err(e.msg().to_string())),
                    (Ok(Ok(d)), Some(o)) => guard(|| Ok(Some(Entry { tree: Tree::Un(o, Box::new(ea.tree.clone())), f: ex_msg(F::from_deepex(d.clone()))?, d }))),
                }
            }
            6 => {
                // overloaded operators of DeepEx without shortcuts: - & | ^ % and unary minus apply the
                // table's operator of that name (an error if the table does not define it)
                let sym = ["-", "&", "|", "^", "%", "neg"][t.choose(6)];
                let name = if sym == "neg" { "-" } else { sym };
                let idx = table.iter().position(|o| o.name == name && if sym == "neg" { o.unary } else { o.bin.is_some() });
                w.history.push(format!("#{} = overloaded `{sym}` on deep #{a}{}", w.entries.len(), if sym == "neg" { String::new() } else { format!(", #{b}") }));
                let r = guard(|| match sym {
                    "-" => da() - db(),
                    "&" => da() & db(),
                    "|" => da() | db(),
                    "^" => da() ^ db(),
                    "%" => da() % db(),
                    _ => -da(),
                });
                match (r, idx) {
                    (Err(p), _) => Err(p),
                    (Ok(Err(_)), None) => Ok(Ok(None)),
                    (Ok(Ok(_)), None) => {
                        return Err(fail(&format!("{prop}/overloaded-unknown-accepted"), format!("overloaded `{sym}` returns Ok although the table does not define `{name}` in that role"), w.describe()))
                    }
                    (Ok(Err(e)), Some(_)) => Ok(Err(e.msg().to_string())),
                    (Ok(Ok(d)), Some(o)) => guard(|| {
                        let tree = if sym == "neg" { Tree::Un(o, Box::new(ea.tree.clone())) } else { Tree::Bin(o, Box::new(ea.tree.clone()), Box::new(eb.tree.clone())) };
                        Ok(Some(Entry { tree, f: ex_msg(F::from_deepex(d.clone()))?, d }))
                    }),
                }
            }
            _ => {
                let o = *t.pick(&ti.bins);
                let name = table[o].name;
                w.history.push(format!("#{} = operate_binary(#{a}, #{b}, {name})", w.entries.len()));
                let (mut ua, mut ub) = (BTreeSet::new(), BTreeSet::new());
                vars_used(&ea.tree, &mut ua);
                vars_used(&eb.tree, &mut ub);
                if ua != ub {
                    out.n_bin_diff_vars += 1;
                }
                guard(|| {
                    Ok(Some(Entry {
                        tree: Tree::Bin(o, Box::new(ea.tree.clone()), Box::new(eb.tree.clone())),
                        f: ex_msg(fa().operate_binary(fb(), name))?,
                        d: ex_msg(da().operate_binary(db(), name))?,
                    }))
                })
            }
        };
        match step {
            Err(p) => return Err(fail(&format!("{prop}/panic"), format!("panic during {:?}: {p}", w.history.last()), w.describe())),
            Ok(Err(e)) => return Err(fail(&format!("{prop}/error"), format!("valid step {:?} fails: {e}", w.history.last()), w.describe())),
            Ok(Ok(None)) => {}
            Ok(Ok(Some(e))) => {
                out.steps += 1;
                if n_operands(&e.tree) > 60 {
                    // keep histories bounded
                    w.history.push("(result too large, dropped)".into());
                    continue;
                }
                let r = guard(|| check_entry(&w, &e, cfg, st, printable));
                match r {
                    Err(p) => return Err(fail(&format!("{prop}/panic"), format!("panic while checking after {:?}: {p}", w.history.last()), w.describe())),
                    Ok(Err(fl)) => return Err(fl),
                    Ok(Ok(())) => {}
                }
                out.printed_differs = true;
                w.entries.push(e);
            }
        }
    }
    out.world = w.describe();
    Ok(out)
}
