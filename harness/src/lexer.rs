//! Reference tokeniser written from the documented lexical rules (README / lib.rs / property C13):
//! only ' ' separates; parentheses and comma; anything in curly braces is one variable; number
//! literals (digits with at most one dot, not a lone dot); the longest operator name wins; a
//! unary operator or constant is only recognised if its name is not continued by further
//! identifier characters; otherwise a maximal identifier is a variable.
use crate::gen::{is_ident_char, is_ident_start, is_identifier};
use crate::term::OpSpec;

#[derive(Clone, Debug, PartialEq, Eq)]
pub enum LTok {
    Open,
    Close,
    Comma,
    Var(String),
    Num(String),
    /// index into the table (operators and constants)
    Op(usize),
}

pub fn ref_lex(text: &str, table: &[OpSpec], literal: &dyn Fn(&str) -> Option<usize>) -> Result<Vec<LTok>, String> {
    let mut out = vec![];
    let mut pos = 0usize;
    while pos < text.len() {
        let rest = &text[pos..];
        let c = rest.chars().next().unwrap();
        if c == ' ' {
            pos += 1;
            continue;
        }
        if c == '(' {
            out.push(LTok::Open);
            pos += 1;
            continue;
        }
        if c == ')' {
            out.push(LTok::Close);
            pos += 1;
            continue;
        }
        if c == ',' {
            out.push(LTok::Comma);
            pos += 1;
            continue;
        }
        if c == '{' {
            match rest.find('}') {
                Some(end) => {
                    out.push(LTok::Var(rest[1..end].to_string()));
                    pos += end + 1;
                }
                None => return Err("unclosed brace (unspecified)".into()),
            }
            continue;
        }
        if let Some(n) = literal(rest) {
            out.push(LTok::Num(rest[..n].to_string()));
            pos += n;
            continue;
        }
        // longest operator name that is applicable here
        let mut best: Option<usize> = None;
        for (i, o) in table.iter().enumerate() {
            if rest.starts_with(o.name) {
                let after = rest[o.name.len()..].chars().next();
                let continues = match after {
                    Some(a) => is_identifier(o.name) && is_ident_char(a),
                    None => false,
                };
                // binary operators are matched without look-ahead
                if o.bin.is_some() || !continues {
                    if best.map(|b| table[b].name.len() < o.name.len()).unwrap_or(true) {
                        best = Some(i);
                    }
                }
            }
        }
        if let Some(i) = best {
            out.push(LTok::Op(i));
            pos += table[i].name.len();
            continue;
        }
        if is_ident_start(c) {
            let n: usize = rest.chars().take_while(|c| is_ident_char(*c)).map(|c| c.len_utf8()).sum();
            out.push(LTok::Var(rest[..n].to_string()));
            pos += n;
            continue;
        }
        return Err(format!("cannot tokenise `{rest}`"));
    }
    Ok(out)
}

pub fn term_literal(s: &str) -> Option<usize> {
    use exmex::MatchLiteral;
    crate::term::TermMatcher::is_literal(s).map(|m| m.len())
}

/// Is there a binary-only operator without a left operand (start of text, after `(` or `,`)
/// that is not the head of a call `op(a, b)`? (prefix "function style" `op a b`)
pub fn has_prefix_binary(toks: &[LTok], table: &[OpSpec]) -> bool {
    for (i, tk) in toks.iter().enumerate() {
        if let LTok::Op(o) = tk {
            let spec = &table[*o];
            if spec.bin.is_some() && !spec.unary && !spec.constant {
                let left_missing = i == 0 || matches!(toks[i - 1], LTok::Open | LTok::Comma);
                if left_missing && !is_call_head(toks, i) {
                    return true;
                }
            }
        }
    }
    false
}

/// `toks[i]` is an operator directly followed by a parenthesised group with a comma at its top level
pub fn is_call_head(toks: &[LTok], i: usize) -> bool {
    if !matches!(toks.get(i + 1), Some(LTok::Open)) {
        return false;
    }
    let mut depth = 0i32;
    for tk in &toks[i + 1..] {
        match tk {
            LTok::Open => depth += 1,
            LTok::Close => {
                depth -= 1;
                if depth == 0 {
                    return false;
                }
            }
            LTok::Comma if depth == 1 => return true,
            _ => {}
        }
    }
    false
}
