pub mod gen;
pub mod lexer;
pub mod props;
pub mod runner;
pub mod soup;
pub mod tape;
pub mod tcase;
pub mod term;
