pub mod gen;
pub mod props;
pub mod runner;
pub mod tape;
pub mod tcase;
pub mod term;
