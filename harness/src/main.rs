use exmex_verif::props;
use exmex_verif::runner::{self, Tier};

fn usage() -> ! {
    eprintln!("usage: vcheck <ID> [--tier quick|thorough] [--seed N] | vcheck replay <file> | vcheck list");
    std::process::exit(2);
}

fn main() {
    let args: Vec<String> = std::env::args().collect();
    if args.len() < 2 {
        usage();
    }
    runner::install_panic_hook();
    match args[1].as_str() {
        "list" => {
            for id in props::all_ids() {
                println!("{id}");
            }
        }
        "c06-worker" => {
            let seed: u64 = args[2].parse().unwrap_or(1);
            let cases: u64 = args[3].parse().unwrap_or(1);
            std::process::exit(props::c06::worker_main(seed, cases, &args[4]));
        }
        "c20-worker" => {
            let seed: u64 = args[2].parse().unwrap_or(1);
            std::process::exit(props::c20::worker_main(seed, &args[3]));
        }
        "c06-text" => {
            std::process::exit(props::c06::text_main(&args[2]));
        }
        "probe" => {
            // vcheck probe <replay.json> [text]
            let body: serde_json::Value =
                serde_json::from_str(&std::fs::read_to_string(&args[2]).expect("read")).expect("json");
            let table = exmex_verif::tcase::table_from_spec(&body["case"]["table_spec"]);
            let text = args.get(3).cloned().unwrap_or_else(|| body["case"]["text"].as_str().unwrap_or("").to_string());
            println!("table: {}", exmex_verif::term::describe_table(&table));
            println!("text: {text}");
            std::thread::Builder::new()
                .stack_size(runner::WORKER_STACK)
                .spawn(move || exmex_verif::tcase::probe(&table, &text))
                .unwrap()
                .join()
                .unwrap();
        }
        "replay" => {
            let Some(path) = args.get(2) else { usage() };
            let text = match std::fs::read_to_string(path) {
                Ok(t) => t,
                Err(e) => {
                    eprintln!("cannot read {path}: {e}");
                    std::process::exit(2);
                }
            };
            let body: serde_json::Value = match serde_json::from_str(&text) {
                Ok(b) => b,
                Err(e) => {
                    eprintln!("cannot parse {path}: {e}");
                    std::process::exit(2);
                }
            };
            let id = body.get("property").and_then(|x| x.as_str()).unwrap_or("").to_string();
            let id = id.as_str();
            let Some(def) = props::get(id) else {
                eprintln!("unknown property {id}");
                std::process::exit(2);
            };
            // run on a big-stack thread like the checks do
            let res = std::thread::Builder::new()
                .stack_size(runner::WORKER_STACK)
                .spawn(move || runner::replay(&def.subs, &body))
                .unwrap()
                .join()
                .unwrap();
            match res {
                Err(e) => {
                    eprintln!("replay error: {e}");
                    std::process::exit(2);
                }
                Ok(Ok(())) => {
                    println!("replay: case passes");
                    std::process::exit(0);
                }
                Ok(Err(fl)) => {
                    println!("VIOLATION property={id} replay={path}");
                    eprintln!("{}: {}", fl.signature, fl.msg);
                    eprintln!("{}", serde_json::to_string_pretty(&fl.case).unwrap());
                    std::process::exit(1);
                }
            }
        }
        id => {
            let Some(def) = props::get(id) else {
                eprintln!("unknown property {id}");
                std::process::exit(2);
            };
            let mut tier = match std::env::var("VERIF_TIER").as_deref() {
                Ok("thorough") => Tier::Thorough,
                _ => Tier::Quick,
            };
            let mut seed: u64 = std::env::var("VERIF_SEED").ok().and_then(|s| s.trim().parse().ok()).unwrap_or(1);
            let mut i = 2;
            while i < args.len() {
                match args[i].as_str() {
                    "--tier" => {
                        i += 1;
                        tier = match args.get(i).map(|s| s.as_str()) {
                            Some("quick") => Tier::Quick,
                            Some("thorough") => Tier::Thorough,
                            _ => usage(),
                        };
                    }
                    "--seed" => {
                        i += 1;
                        seed = args.get(i).and_then(|s| s.parse().ok()).unwrap_or_else(|| usage());
                    }
                    _ => usage(),
                }
                i += 1;
            }
            let out = runner::run_property(def.id, def.level_text, &def.subs, tier, seed, &def.assumptions);
            std::process::exit(if out.violations > 0 { 1 } else { 0 });
        }
    }
}
