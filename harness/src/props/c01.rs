//! C01 — Evaluation follows the documented operator semantics.
use super::PropDef;
use crate::gen::*;
use crate::runner::*;
use crate::tape::Tape;
use crate::tcase::*;
use crate::term::Term;
use exmex::prelude::*;
use serde_json::json;

pub fn small_cfg() -> CaseCfg {
    CaseCfg {
        table: TableCfg::default(),
        tree: TreeCfg { max_operands: 8, lit_pct: 45, unary_pct: 20, ..TreeCfg::default() },
        render: RenderCfg::default(),
        max_vars: 5,
        weird_pct: 10,
    }
}
pub fn long_cfg() -> CaseCfg {
    CaseCfg {
        table: TableCfg::default(),
        tree: TreeCfg { max_operands: 200, lit_pct: 40, unary_pct: 8, ..TreeCfg::default() },
        render: RenderCfg { redundant_paren_pct: 3, ..RenderCfg::default() },
        max_vars: 20,
        weird_pct: 5,
    }
}

/// small trees in which about one node in fifteen carries a tower of 14-43 unary operators (a node of
/// the flat and of the deep form stores up to 16 unary operators inline)
pub fn tower_cfg() -> CaseCfg {
    CaseCfg {
        table: TableCfg::default(),
        tree: TreeCfg { max_operands: 6, lit_pct: 40, unary_pct: 15, tower_pct: 7, ..TreeCfg::default() },
        render: RenderCfg::default(),
        max_vars: 4,
        weird_pct: 5,
    }
}

/// Classification shared by several properties: counts the generator's measured distribution and
/// returns whether the case is non-trivial by the C01 rule.
pub fn classify(case: &TermCase, st: &mut Stats) -> bool {
    let f = &case.facts;
    st.class_if(f.operands >= 3, "operands>=3");
    st.class_if(f.operands > 64, "operands>64");
    st.class_if(f.operands > 32, "operands>32");
    st.class_if(f.equal_prio_adjacent, "equal-priority operators adjacent");
    st.class_if(f.equal_prio_mixed, "commutative and other operator share a priority, adjacent");
    st.class_if(f.unary_over_group2, "unary over group with >=2 binary operators");
    st.class_if(f.unary_chain2, "unary composition length>=2");
    st.class_if(f.adjacent_literals, "adjacent literal operands");
    st.class_if(f.dual_both_roles, "dual operator used as unary and binary");
    st.class_if(case.info.juxtaposition, "unary juxtaposition");
    st.class_if(case.info.redundant_parens > 0, "redundant parentheses");
    st.class_if(case.info.braced_and_bare, "variable spelled braced and bare");
    st.class_if(case.names.len() > 16, "more than 16 variables");
    f.operands >= 3
        && (f.equal_prio_adjacent || f.unary_over_group2 || f.adjacent_literals || f.operands > 64)
}

fn eval_flat(text: &str, vals: &[Term], compile: bool) -> Result<(Vec<String>, Term), String> {
    let e = if compile { ex_msg(F::parse(text))? } else { ex_msg(F::parse_wo_compile(text))? };
    let v = ex_msg(e.eval(vals))?;
    Ok((e.var_names().to_vec(), v))
}
/// the owning evaluation variants of the same parsed expression (they share the reduction with `eval`
/// but have their own value bookkeeping)
fn eval_flat_owning(text: &str, vals: &[Term], compile: bool) -> Result<Vec<(&'static str, Term)>, String> {
    let e = if compile { ex_msg(F::parse(text))? } else { ex_msg(F::parse_wo_compile(text))? };
    Ok(vec![
        ("eval_vec", ex_msg(e.eval_vec(vals.to_vec()))?),
        ("eval_iter", ex_msg(e.eval_iter(vals.to_vec().into_iter()))?),
        ("eval_relaxed", ex_msg(e.eval_relaxed(vals))?),
    ])
}

pub fn check_flat(case: &TermCase, label: &str, compile: bool) -> CaseResult {
    let sig = |k: &str| format!("C01/{label}/{k}");
    let mk = |k: &str, msg: String| {
        let mut c = case.describe();
        c["form"] = json!(label);
        fail(&sig(k), msg, c)
    };
    match guard(|| eval_flat(&case.text, &case.vals, compile)) {
        Err(p) => Err(mk("panic", format!("panic on well-formed text `{}`: {p}", case.text))),
        Ok(Err(e)) => Err(mk("rejected", format!("well-formed text `{}` rejected: {e}", case.text))),
        Ok(Ok((names, v))) => {
            if names != case.names {
                return Err(mk(
                    "var-names",
                    format!("`{}`: var_names {:?}, expected {:?}", case.text, names, case.names),
                ));
            }
            let vn = case.norm(&v);
            if vn != case.refv {
                return Err(mk(
                    "wrong-value",
                    format!("`{}` evaluates to {:?}, documented semantics give {:?}", case.text, vn, case.refv),
                ));
            }
            match guard(|| eval_flat_owning(&case.text, &case.vals, compile)) {
                Err(p) => Err(mk("panic", format!("panic on well-formed text `{}` in an owning evaluation: {p}", case.text))),
                Ok(Err(e)) => Err(mk("rejected", format!("well-formed text `{}`: owning evaluation fails: {e}", case.text))),
                Ok(Ok(vs)) => {
                    for (what, v) in vs {
                        let vn = case.norm(&v);
                        if vn != case.refv {
                            return Err(mk(
                                "wrong-value",
                                format!("`{}` evaluates via {what} to {:?}, documented semantics give {:?}", case.text, vn, case.refv),
                            ));
                        }
                    }
                    Ok(())
                }
            }
        }
    }
}

fn run_case(tape: &[u32], st: &mut Stats, cfg: &CaseCfg) -> CaseResult {
    let mut t = Tape::new(tape);
    let case = gen_term_case(&mut t, cfg);
    if classify(&case, st) {
        st.nontrivial(&format!("{}|{}", case.text, crate::term::describe_table(&case.table)));
        if st.want_sample() {
            st.sample(case.describe());
        }
    }
    check_flat(&case, "flat", true)?;
    check_flat(&case, "flat_wo_compile", false)?;
    Ok(())
}

fn term_small(tape: &[u32], st: &mut Stats) -> CaseResult {
    run_case(tape, st, &small_cfg())
}
fn term_long(tape: &[u32], st: &mut Stats) -> CaseResult {
    run_case(tape, st, &long_cfg())
}
fn term_towers(tape: &[u32], st: &mut Stats) -> CaseResult {
    let mut t = Tape::new(tape);
    let case = gen_term_case(&mut t, &tower_cfg());
    let f = &case.facts;
    st.class_if(f.max_unary_chain > 16, "unary composition longer than 16");
    st.class_if(f.max_unary_chain > 32, "unary composition longer than 32");
    st.class_if(f.max_unary_chain > 16 && f.operands >= 2, "tower inside a binary operation");
    if f.max_unary_chain > 16 {
        st.nontrivial(&format!("{}|{}", case.text, crate::term::describe_table(&case.table)));
        if st.want_sample() {
            st.sample(case.describe());
        }
    }
    check_flat(&case, "flat", true)?;
    check_flat(&case, "flat_wo_compile", false)?;
    Ok(())
}

/// a table and a literal matcher defined with the crate's macros `ops_factory!` and
/// `literal_matcher_from_pattern!` (the documented way): same semantics as the run-time table
fn macro_factory(tape: &[u32], st: &mut Stats) -> CaseResult {
    use crate::term::{macro_table, MacroMatcher, MacroOps};
    type FM = exmex::FlatEx<Term, MacroOps, MacroMatcher>;
    type DM<'a> = exmex::DeepEx<'a, Term, MacroOps, MacroMatcher>;
    let mut t = Tape::new(tape);
    let table = macro_table();
    let pool = gen_var_pool(&mut t, &table, 4, 5);
    let tree = gen_tree(&mut t, &table, pool.names.len(), &TreeCfg { max_operands: 10, lit_pct: 40, unary_pct: 20, ..TreeCfg::default() });
    let case = finish_case(&mut t, table, pool, tree, &RenderCfg { call_pct: 20, ..RenderCfg::default() });
    if classify(&case, st) && st.nontrivial(&case.text) && st.want_sample() {
        st.sample(case.describe());
    }
    let text: &str = &case.text;
    let routes: [(&str, Box<dyn Fn() -> Result<(Vec<String>, Term), String> + '_>); 3] = [
        ("FlatEx<Term, MacroOps, MacroMatcher>::parse", Box::new(|| { let e = ex_msg(FM::parse(text))?; Ok((e.var_names().to_vec(), ex_msg(e.eval(&case.vals))?)) })),
        ("parse_wo_compile (macro table)", Box::new(|| { let e = ex_msg(FM::parse_wo_compile(text))?; Ok((e.var_names().to_vec(), ex_msg(e.eval(&case.vals))?)) })),
        ("DeepEx (macro table)", Box::new(|| { let e = ex_msg(DM::parse(text))?; Ok((e.var_names().to_vec(), ex_msg(e.eval(&case.vals))?)) })),
    ];
    for (what, f) in routes.iter() {
        let mk = |k: &str, msg: String| fail(&format!("C01/macro/{k}"), msg, case.describe());
        match guard(|| f()) {
            Err(p) => return Err(mk("panic", format!("{what} panics on `{text}`: {p}"))),
            Ok(Err(e)) => return Err(mk("rejected", format!("{what} rejects well-formed `{text}`: {e}"))),
            Ok(Ok((names, v))) => {
                if names != case.names {
                    return Err(mk("var-names", format!("{what} on `{text}`: variables {names:?}, expected {:?}", case.names)));
                }
                let vn = case.norm(&v);
                if vn != case.refv {
                    return Err(mk("wrong-value", format!("{what}: `{text}` evaluates to {vn:?}, documented semantics give {:?}", case.refv)));
                }
            }
        }
    }
    Ok(())
}

/// the same semantics over the real default float table: all 34 operators, values compared with an
/// independent evaluation of the tree (std primitives) at points inside the domain
fn float_values(tape: &[u32], st: &mut Stats) -> CaseResult {
    use crate::calc::*;
    let mut t = Tape::new(tape);
    let cfg = CalcCfg { max_size: 10, nvars: 1 + t.choose(4), rational_only: false, nondiff_pct: 20, unary_pct: 30 };
    let size = 1 + t.choose(cfg.max_size);
    let tree = gen_ct(&mut t, &cfg, size);
    let text = render_ct(&tree, &mut t);
    let mut used = vec![];
    ct_vars(&tree, &mut used);
    used.sort_by_key(|i| VAR_NAMES[*i]);
    let names: Vec<String> = used.iter().map(|i| VAR_NAMES[*i].to_string()).collect();
    let mut points: Vec<(Vec<f64>, f64, f64)> = vec![];
    for _ in 0..12 {
        let full: Vec<f64> = (0..VAR_NAMES.len()).map(|_| [0.3 + t.unit_f64() * 2.0, -2.0 + t.unit_f64() * 4.0][t.choose(2)]).collect();
        let mut ok = true;
        let v: f64 = eval_ct(&tree, &full, &mut ok);
        if ok {
            // conditioning of the value at this point (poles, fract of huge numbers, power chains)
            let f = |p: &[f64]| {
                let mut o = true;
                let r: f64 = eval_ct(&tree, p, &mut o);
                o.then_some(r)
            };
            if let Some(sens) = sensitivity(&f, &full) {
                points.push((used.iter().map(|i| full[*i]).collect(), v, sens));
            }
        }
        if points.len() >= 4 {
            break;
        }
    }
    st.class_if(points.is_empty(), "vacuous: no point inside the domain");
    st.class_if(ct_has_any_nondiff(&tree), "uses abs/signum/floor/ceil/round/trunc/fract/cbrt/atan2/min/max");
    if ct_size(&tree) >= 4 && !points.is_empty() && st.nontrivial(&text) && st.want_sample() {
        st.sample(json!({"text": text, "point": points[0].0, "expected": points[0].1}));
    }
    let describe = || json!({"text": text, "vars": names});
    let routes: Vec<(&str, Box<dyn Fn(&[f64]) -> Result<(Vec<String>, f64), String> + '_>)> = vec![
        ("FlatEx<f64>::parse", Box::new(|p: &[f64]| { let e = ex_msg(exmex::FlatEx::<f64>::parse(&text))?; Ok((e.var_names().to_vec(), ex_msg(e.eval(p))?)) })),
        ("FlatEx<f64>::parse_wo_compile", Box::new(|p: &[f64]| { let e = ex_msg(exmex::FlatEx::<f64>::parse_wo_compile(&text))?; Ok((e.var_names().to_vec(), ex_msg(e.eval(p))?)) })),
        ("DeepEx<f64>::parse", Box::new(|p: &[f64]| { let e = ex_msg(exmex::DeepEx::<f64>::parse(&text))?; Ok((e.var_names().to_vec(), ex_msg(e.eval(p))?)) })),
        ("parse<f32>", Box::new(|p: &[f64]| { let e = ex_msg(exmex::parse::<f32>(&text))?; let q: Vec<f32> = p.iter().map(|x| *x as f32).collect(); Ok((e.var_names().to_vec(), ex_msg(e.eval(&q))? as f64)) })),
    ];
    let pts: Vec<(Vec<f64>, f64, f64)> = if points.is_empty() { vec![(vec![1.0; names.len()], f64::NAN, 0.0)] } else { points.clone() };
    for (what, f) in routes.iter() {
        for (p, want, sens) in &pts {
            match guard(|| f(p)) {
                Err(pn) => return Err(fail(&format!("C01/float/{what}/panic"), format!("`{text}` panics: {pn}"), describe())),
                Ok(Err(e)) => return Err(fail(&format!("C01/float/{what}/rejected"), format!("well-formed `{text}` fails: {e}"), describe())),
                Ok(Ok((n, v))) => {
                    if n != names {
                        return Err(fail(&format!("C01/float/{what}/var-names"), format!("`{text}`: variables {n:?}, expected {names:?}"), describe()));
                    }
                    // f32: only acceptance and variables are judged (rounding of the inputs is amplified
                    // arbitrarily by exp/tan/powers, so no tolerance is sound)
                    if *what != "parse<f32>" && !points.is_empty() && !close_cond(v, *want, 1e-9, *sens) {
                        return Err(fail(
                            &format!("C01/float/{what}/wrong-value"),
                            format!("`{text}` at {p:?} = {v}, documented semantics give {want}"),
                            describe(),
                        ));
                    }
                }
            }
        }
    }
    Ok(())
}

pub fn def() -> PropDef {
    PropDef {
        id: "C01",
        level_text: "generated operator table x tree x rendering, evaluated symbolically over a free term algebra and compared (modulo AC of flagged operators) with the tree itself",
        assumptions: vec![
            "operator priorities within 0..=99 (stated by the property)",
            "generated variable names never start with the name of an alphabetic binary operator (documented tokeniser behaviour, carved out by C13)",
            "reference semantics = the generated tree; rendering uses only the documented precedence rules",
        ],
        subs: vec![
            SubCheck {
                name: "term_small",
                rule: "tape -> table(1-9 binary ops, priorities with ties, 0/50/99, random commutative flags, dual and unary operators, constants) x tree(1-8 operands) x rendering; non-trivial = >=3 operands and (equal-priority operators adjacent | unary over a group with >=2 binary operators | two adjacent literal operands); distinct by text+table",
                kind: Kind::Tape { len: 400, quick: 60_000, thorough: 4_000_000, f: term_small },
            },
            SubCheck {
                name: "term_long",
                rule: "as term_small with 1-200 operands (left-deep, right-deep and random shapes), up to 20 variables; non-trivial additionally if >64 operands",
                kind: Kind::Tape { len: 4000, quick: 3_000, thorough: 150_000, f: term_long },
            },
            SubCheck {
                name: "term_towers",
                rule: "as term_small with 1-6 operands where about one node in fifteen carries a tower of 14-43 unary operators (a node stores 16 inline); non-trivial = a composition of more than 16 unary operators; distinct by text+table",
                kind: Kind::Tape { len: 900, quick: 12_000, thorough: 600_000, f: term_towers },
            },
            SubCheck {
                name: "macro_factory",
                rule: "a fixed 12-operator table (dual + and -, two comparison operators with a common prefix, an alphabetic binary operator, unary functions, ASCII and Greek constants; unary and constant slots before the binary ones) defined with `ops_factory!`, literals matched by a `literal_matcher_from_pattern!` matcher; tree(1-10 operands) x rendering incl. call form; FlatEx folded/unfolded and DeepEx against the tree",
                kind: Kind::Tape { len: 400, quick: 4_000, thorough: 300_000, f: macro_factory },
            },
            SubCheck {
                name: "float_values",
                rule: "tape -> tree(1-10 nodes over all 34 default float operators, 1-4 variables) x rendering (call form for atan2/min/max, juxtaposition, braces); FlatEx<f64> folded/unfolded, DeepEx<f64>, parse<f32> evaluated at up to 4 points inside the domain and compared with an independent evaluation of the tree (1e-9 relative, widened by 10x the measured sensitivity of the value to 1e-11 perturbations of the point; f32: acceptance and variables only); non-trivial = >=4 nodes with an interior point; distinct by text",
                kind: Kind::Tape { len: 250, quick: 5_000, thorough: 400_000, f: float_values },
            },
        ],
    }
}
