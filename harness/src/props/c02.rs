//! C02 — Constant folding never changes what an expression computes.
use super::PropDef;
use crate::gen::*;
use crate::runner::*;
use crate::soup::gen_soup;
use crate::tape::Tape;
use crate::tcase::*;
use crate::term::{describe_table, norm, Term};
use exmex::prelude::*;
use serde_json::json;

fn fold_cfg(t: &mut Tape) -> CaseCfg {
    let lit_pct = [30u32, 50, 70][t.choose(3)];
    CaseCfg {
        table: TableCfg::default(),
        tree: TreeCfg { max_operands: 9, lit_pct, unary_pct: 15, ..TreeCfg::default() },
        render: RenderCfg { redundant_paren_pct: 8, ..RenderCfg::default() },
        max_vars: 3,
        weird_pct: 5,
    }
}

/// folded and unfolded flat form, folding twice, the folding deep parser, and the flat forms made
/// from a folded deep expression and from the deep image of a folded flat one
const ROUTES: [Route; 7] = [
    Route::Flat,
    Route::FlatWo,
    Route::FlatWoCompiled,
    Route::FlatWoCompiledTwice,
    Route::Deep,
    Route::DeepToFlat,
    Route::FlatDeepFlat,
];

fn node_count(text: &str, compile: bool) -> Option<usize> {
    let e = if compile { F::parse(text).ok()? } else { F::parse_wo_compile(text).ok()? };
    Some(format!("{e:?}").matches("FlatNode {").count())
}

fn fold_trees(tape: &[u32], st: &mut Stats) -> CaseResult {
    let mut t = Tape::new(tape);
    let cfg = fold_cfg(&mut t);
    let case = gen_term_case(&mut t, &cfg);
    let f = &case.facts;
    st.class_if(f.adjacent_literals, "adjacent literal operands");
    st.class_if(f.equal_prio_adjacent, "equal-priority operators adjacent");
    st.class_if(f.equal_prio_mixed, "commutative and other operator share a priority, adjacent");
    st.class_if(f.n_lits >= 2 && f.n_vars_occ >= 1, ">=2 literals and >=1 variable");
    if f.n_lits >= 2 && f.n_vars_occ >= 1 {
        let folded = guard(|| (node_count(&case.text, false), node_count(&case.text, true))).ok();
        let fold_happened = matches!(folded, Some((Some(a), Some(b))) if a != b);
        st.class_if(fold_happened, "a fold happened (node count changed)");
        st.class_if(f.adjacent_literals && !fold_happened, "adjacent literals but fold declined");
        if fold_happened || f.adjacent_literals {
            if st.nontrivial(&format!("{}|{}", case.text, describe_table(&case.table))) && st.want_sample() {
                st.sample(case.describe());
            }
        }
    }
    for r in ROUTES {
        case.check_route("C02", r)?;
    }
    Ok(())
}

/// Arbitrary accepted strings: the denotations must agree with each other (no tree is known).
pub fn differential(
    prop: &str,
    text: &str,
    table: &[crate::term::OpSpec],
    routes: &[Route],
    origin: &str,
    st: &mut Stats,
) -> CaseResult {
    let vf = |names: &[String]| -> Vec<Term> { (0..names.len()).map(|i| Term::Atom(i as u32)).collect() };
    let mut results: Vec<(Route, Result<Denotation, String>)> = vec![];
    for r in routes {
        match guard(|| denote(*r, text, &vf)) {
            Err(p) => {
                return Err(fail(
                    &format!("{prop}/soup/{}/panic", r.name()),
                    format!("panic on `{text}` via {}: {p}", r.name()),
                    json!({"text": text, "table": describe_table(table), "origin": origin}),
                ))
            }
            Ok(d) => results.push((*r, d)),
        }
    }
    let accepted: Vec<&(Route, Result<Denotation, String>)> = results.iter().filter(|x| x.1.is_ok()).collect();
    if accepted.is_empty() {
        st.class("rejected by all");
        return Ok(());
    }
    st.class("accepted by at least one route");
    // Known finding F15 (see known_findings.json): prefix "function style" `op a b` pairs operators
    // and operands by position in the flat form but per parenthesis group in the deep form.
    // Excluded by construction (counted); its listed inputs are replayed by C03/known_prefix_style.
    match crate::lexer::ref_lex(text, table, &crate::lexer::term_literal) {
        Ok(toks) => {
            if crate::lexer::has_prefix_binary(&toks, table) {
                st.excluded("F15: binary operator in prefix position (function style without parentheses)");
                return Ok(());
            }
        }
        Err(_) => {
            st.excluded("accepted text the reference tokeniser leaves unspecified (unclosed brace)");
            return Ok(());
        }
    }
    // conversions of an accepted expression must not fail; flat and deep parser may differ in acceptance
    // (the property speaks of strings both accept), but routes starting from the same parser may not.
    let same_parser = |a: Route, b: Route| {
        let flat = |r: Route| !matches!(r, Route::Deep | Route::DeepToFlat | Route::DeepFlatDeep);
        flat(a) == flat(b)
    };
    for (r, d) in &results {
        if let Err(e) = d {
            if let Some((r2, _)) = accepted.iter().find(|(r2, _)| same_parser(*r, *r2)) {
                return Err(fail(
                    &format!("{prop}/soup/{}/fails-while-sibling-accepts", r.name()),
                    format!("`{text}`: {} fails ({e}) but {} succeeds", r.name(), r2.name()),
                    json!({"text": text, "table": describe_table(table), "origin": origin}),
                ));
            }
        }
    }
    if accepted.len() == results.len() {
        st.class("accepted by all routes");
        if st.nontrivial(&format!("{text}|{}", describe_table(table))) && st.want_sample() {
            st.sample(json!({"text": text, "table": describe_table(table), "origin": origin}));
        }
    }
    let (r0, d0) = accepted[0];
    let d0 = d0.as_ref().unwrap();
    let n0 = norm(&d0.value, table);
    for (r, d) in accepted.iter().skip(1) {
        let d = d.as_ref().unwrap();
        if d.names != d0.names {
            return Err(fail(
                &format!("{prop}/soup/{}/var-names", r.name()),
                format!("`{text}`: var_names {:?} via {} but {:?} via {}", d.names, r.name(), d0.names, r0.name()),
                json!({"text": text, "table": describe_table(table), "origin": origin}),
            ));
        }
        let n = norm(&d.value, table);
        if n != n0 {
            return Err(fail(
                &format!("{prop}/soup/{}/disagree", r.name()),
                format!("`{text}` denotes {:?} via {} but {:?} via {}", n, r.name(), n0, r0.name()),
                json!({"text": text, "table": describe_table(table), "origin": origin}),
            ));
        }
    }
    Ok(())
}

fn fold_long(tape: &[u32], st: &mut Stats) -> CaseResult {
    let mut t = Tape::new(tape);
    let lit_pct = [30u32, 50, 70][t.choose(3)];
    let cfg = CaseCfg {
        table: TableCfg { max_bin: 6, ..TableCfg::default() },
        tree: TreeCfg { max_operands: 120, lit_pct, unary_pct: 5, shape_weights: [2, 6, 1], ..TreeCfg::default() },
        render: RenderCfg { redundant_paren_pct: 2, ..RenderCfg::default() },
        max_vars: 6,
        weird_pct: 0,
    };
    let case = gen_term_case(&mut t, &cfg);
    let f = &case.facts;
    st.class_if(f.operands > 21, ">21 operands");
    st.class_if(f.operands > 32, ">32 operands");
    st.class_if(f.operands > 64, ">64 operands");
    if f.operands > 21 && f.n_lits >= 2 && f.n_vars_occ >= 1 {
        if st.nontrivial(&format!("{}|{}", case.text, describe_table(&case.table))) && st.want_sample() {
            st.sample(case.describe());
        }
    }
    for r in [Route::Flat, Route::FlatWo, Route::Deep, Route::FlatWoCompiledTwice] {
        case.check_route("C02", r)?;
    }
    Ok(())
}

fn fold_soup(tape: &[u32], st: &mut Stats) -> CaseResult {
    let mut t = Tape::new(tape);
    let cfg = fold_cfg(&mut t);
    let case = gen_term_case(&mut t, &cfg);
    let (text, origin) = gen_soup(&mut t, &case.table, &case.pool, &case.toks);
    st.class(origin);
    differential("C02", &text, &case.table, &ROUTES, origin, st)
}

/// entry for the coverage-guided fuzz target (the bytes are the choice tape)
pub fn fuzz_entry(tape: &[u32], st: &mut Stats) -> CaseResult {
    fold_soup(tape, st)
}

pub fn def() -> PropDef {
    PropDef {
        id: "C02",
        level_text: "five denotations of one text (folded, unfolded, folded once/twice afterwards, deep) evaluated on symbolic variables over a free term algebra: compared with the generated tree (modulo AC of flagged operators) for generated trees, and with each other for arbitrary accepted strings",
        assumptions: vec![
            "priorities 0..=99; commutative flag regarded as licence for AC regrouping of the same operator only",
            "a folded literal is visible as the sub-term it was computed from, so a wrong neighbour shows up structurally",
        ],
        subs: vec![
            SubCheck {
                name: "fold_trees",
                rule: "tape -> table x tree(1-9 operands, literal share 30/50/70%) x rendering; routes parse, parse_wo_compile, +compile, +compile twice, DeepEx::parse; non-trivial = >=2 literal operands and >=1 variable and (node count changed by folding | two literals adjacent); distinct by text+table",
                kind: Kind::Tape { len: 400, quick: 50_000, thorough: 3_000_000, f: fold_trees },
            },
            SubCheck {
                name: "fold_long",
                rule: "as fold_trees with 1-120 operands, mostly one long parenthesis-free chain (more than 20 and more than 32 operators on one level); routes parse, parse_wo_compile, +compile twice, DeepEx::parse; non-trivial = >21 operands, >=2 literals, >=1 variable",
                kind: Kind::Tape { len: 2500, quick: 6_000, thorough: 300_000, f: fold_long },
            },
            SubCheck {
                name: "fold_soup",
                rule: "tape -> table x (rendered expression with 0-3 token mutations | random token sequence); judged when accepted; non-trivial = accepted by all five routes; distinct by text+table",
                kind: Kind::Tape { len: 500, quick: 40_000, thorough: 2_000_000, f: fold_soup },
            },
            super::c03::f15_subcheck(),
            crate::fuzzdrv::differential_subcheck(),
        ],
    }
}
