//! C03 — Flat and deep expression forms are interchangeable.
use super::c02::differential;
use super::PropDef;
use crate::gen::*;
use crate::runner::*;
use crate::soup::gen_soup;
use crate::tape::Tape;
use crate::tcase::*;
use crate::term::{describe_table, Term};
use exmex::prelude::*;
use exmex::DeepEx;
use serde_json::json;
use std::collections::BTreeSet;

fn cfg_small() -> CaseCfg {
    CaseCfg {
        table: TableCfg::default(),
        tree: TreeCfg { max_operands: 8, lit_pct: 40, unary_pct: 25, ..TreeCfg::default() },
        render: RenderCfg { redundant_paren_pct: 12, ..RenderCfg::default() },
        max_vars: 5,
        weird_pct: 10,
    }
}
fn cfg_long() -> CaseCfg {
    CaseCfg {
        table: TableCfg { max_bin: 6, ..TableCfg::default() },
        tree: TreeCfg { max_operands: 100, lit_pct: 35, unary_pct: 6, shape_weights: [3, 4, 2], ..TreeCfg::default() },
        render: RenderCfg { redundant_paren_pct: 2, ..RenderCfg::default() },
        max_vars: 20,
        weird_pct: 3,
    }
}

enum Ex<'a> {
    F(F),
    D(D<'a>),
}
impl<'a> Ex<'a> {
    fn names(&self) -> Vec<String> {
        match self {
            Ex::F(e) => e.var_names().to_vec(),
            Ex::D(e) => e.var_names().to_vec(),
        }
    }
    fn eval(&self, v: &[Term]) -> Result<Term, String> {
        match self {
            Ex::F(e) => ex_msg(e.eval(v)),
            Ex::D(e) => ex_msg(e.eval(v)),
        }
    }
    fn kind(&self) -> &'static str {
        match self {
            Ex::F(_) => "flat",
            Ex::D(_) => "deep",
        }
    }
}

fn histories(tape: &[u32], st: &mut Stats, cfg: &CaseCfg, max_steps: usize) -> CaseResult {
    let mut t = Tape::new(tape);
    let case = gen_term_case(&mut t, cfg);
    let start = t.choose(3);
    let n_steps = t.choose(max_steps + 1);
    let steps: Vec<usize> = (0..n_steps).map(|_| t.weighted(&[6, 1, 1])).collect();
    let mut hist: Vec<String> = vec![["FlatEx::parse", "FlatEx::parse_wo_compile", "DeepEx::parse"][start].to_string()];
    let f = &case.facts;
    st.class_if(f.unary_chain2, "unary composition length>=2");
    st.class_if(f.max_unary_chain > 16, "unary composition longer than 16");
    st.class_if(case.info.max_depth >= 1, "parenthesised group");
    st.class_if(f.operands > 21, ">21 operands");
    st.class_if(f.operands > 64, ">64 operands");
    let text: &str = &case.text;
    let mk = |k: &str, msg: String, hist: &[String]| {
        let mut c = case.describe();
        c["history"] = json!(hist);
        fail(&format!("C03/history/{k}"), msg, c)
    };
    let res = guard(|| -> Result<Result<usize, Fail>, String> {
        let mut ex: Ex = match start {
            0 => Ex::F(ex_msg(F::parse(text))?),
            1 => Ex::F(ex_msg(F::parse_wo_compile(text))?),
            _ => Ex::D(ex_msg(D::parse(text))?),
        };
        let mut changes = 0usize;
        let check = |ex: &Ex, hist: &[String]| -> Result<(), Fail> {
            let names = ex.names();
            if names != case.names {
                return Err(mk("var-names", format!("`{text}` after {hist:?}: var_names {names:?}, expected {:?}", case.names), hist));
            }
            match ex.eval(&case.vals) {
                Err(e) => Err(mk("eval-error", format!("`{text}` after {hist:?}: eval fails: {e}"), hist)),
                Ok(v) => {
                    let vn = case.norm(&v);
                    if vn != case.refv {
                        Err(mk(
                            "wrong-value",
                            format!("`{text}` after {hist:?} ({}) denotes {vn:?}, reference gives {:?}", ex.kind(), case.refv),
                            hist,
                        ))
                    } else {
                        Ok(())
                    }
                }
            }
        };
        if let Err(f) = check(&ex, &hist) {
            return Ok(Err(f));
        }
        for s in &steps {
            ex = match (*s, ex) {
                (0, Ex::F(e)) => {
                    hist.push("to_deepex".into());
                    changes += 1;
                    Ex::D(ex_msg(e.to_deepex())?)
                }
                (0, Ex::D(e)) => {
                    hist.push("FlatEx::from_deepex".into());
                    changes += 1;
                    Ex::F(ex_msg(F::from_deepex(e))?)
                }
                (1, Ex::F(e)) => {
                    hist.push("clone".into());
                    Ex::F(e.clone())
                }
                (1, Ex::D(e)) => {
                    hist.push("clone".into());
                    Ex::D(e.clone())
                }
                (_, Ex::F(e)) => {
                    hist.push("clone.to_deepex (discarded)".into());
                    let _ = ex_msg(e.clone().to_deepex())?;
                    Ex::F(e)
                }
                (_, Ex::D(e)) => {
                    hist.push("DeepEx::to_deepex/from_deepex (identity)".into());
                    Ex::D(ex_msg(DeepEx::from_deepex(ex_msg(e.to_deepex())?))?)
                }
            };
            if let Err(f) = check(&ex, &hist) {
                return Ok(Err(f));
            }
        }
        Ok(Ok(changes))
    });
    match res {
        Err(p) => Err(mk("panic", format!("panic on `{text}` during conversions: {p}"), &["?".to_string()])),
        Ok(Err(e)) => Err(mk("conversion-error", format!("`{text}`: parse or conversion of a well-formed expression fails: {e}"), &["?".to_string()])),
        Ok(Ok(Err(f))) => Err(f),
        Ok(Ok(Ok(changes))) => {
            st.class_if(changes >= 2, ">=2 changes of form");
            st.class_if(changes >= 4, ">=4 changes of form");
            if changes >= 2 && case.info.max_depth >= 1 && (f.unary_chain2 || f.operands > 21) {
                if st.nontrivial(&format!("{}|{}|{start}|{steps:?}", case.text, describe_table(&case.table))) && st.want_sample() {
                    let mut c = case.describe();
                    c["history"] = json!(hist);
                    st.sample(c);
                }
            }
            Ok(())
        }
    }
}

fn convert_histories(tape: &[u32], st: &mut Stats) -> CaseResult {
    histories(tape, st, &cfg_small(), 8)
}
fn convert_histories_long(tape: &[u32], st: &mut Stats) -> CaseResult {
    histories(tape, st, &cfg_long(), 4)
}
fn convert_histories_towers(tape: &[u32], st: &mut Stats) -> CaseResult {
    histories(tape, st, &super::c01::tower_cfg(), 6)
}

// ---------------------------------------------------------------------------------------------

fn sorted_strict(v: &[String]) -> bool {
    v.windows(2).all(|w| w[0] < w[1])
}

/// wide tables: more than 16 kinds of unary and of binary operators in one expression (beyond the
/// inline capacity of the listings)
fn cfg_wide() -> CaseCfg {
    CaseCfg {
        table: TableCfg { max_bin: 34, max_un: 17, max_const: 3, ..TableCfg::default() },
        tree: TreeCfg { max_operands: 90, lit_pct: 25, unary_pct: 35, ..TreeCfg::default() },
        render: RenderCfg { redundant_paren_pct: 4, ..RenderCfg::default() },
        max_vars: 5,
        weird_pct: 5,
    }
}
fn listings(tape: &[u32], st: &mut Stats) -> CaseResult {
    let mut t = Tape::new(tape);
    let wide = t.chance(12);
    let case = gen_term_case(&mut t, &if wide { cfg_wide() } else { cfg_small() });
    let text: &str = &case.text;
    let (mut un_all, mut bin_all, mut un_var, mut bin_var) = (BTreeSet::new(), BTreeSet::new(), BTreeSet::new(), BTreeSet::new());
    ops_in_tree(&case.tree, &case.table, &mut un_all, &mut bin_all);
    ops_on_vars(&case.tree, &case.table, &mut un_var, &mut bin_var);
    let const_sub = has_constant_subexpr(&case.tree);
    st.class_if(const_sub, "tree has a variable-free sub-expression with an operator");
    st.class_if(bin_all.len() > 16, "more than 16 kinds of binary operators in the expression");
    st.class_if(un_all.len() > 16, "more than 16 kinds of unary operators in the expression");
    st.class_if(!un_all.is_empty() && !bin_all.is_empty(), "unary and binary operators present");
    type L = (Vec<String>, Vec<String>, Vec<String>);
    fn lists<'a, E: Express<'a, Term>>(e: &E) -> L {
        (e.unary_reprs().to_vec(), e.binary_reprs().to_vec(), e.operator_reprs().to_vec())
    }
    let res = guard(|| -> Result<Vec<(&'static str, L)>, String> {
        let f = ex_msg(F::parse(text))?;
        let w = ex_msg(F::parse_wo_compile(text))?;
        let d = ex_msg(D::parse(text))?;
        let fd = ex_msg(f.clone().to_deepex())?;
        let df = ex_msg(F::from_deepex(d.clone()))?;
        Ok(vec![
            ("flat", lists(&f)),
            ("flat_wo_compile", lists(&w)),
            ("deep", lists(&d)),
            ("flat->deep", lists(&fd)),
            ("deep->flat", lists(&df)),
        ])
    });
    let mk = |k: &str, msg: String| fail(&format!("C03/listings/{k}"), msg, case.describe());
    let ls = match res {
        Err(p) => return Err(mk("panic", format!("panic listing operators of `{text}`: {p}"))),
        Ok(Err(e)) => return Err(mk("error", format!("`{text}` (well-formed) fails: {e}"))),
        Ok(Ok(l)) => l,
    };
    for (label, (un, bin, all)) in &ls {
        for (what, l) in [("unary_reprs", un), ("binary_reprs", bin), ("operator_reprs", all)] {
            if !sorted_strict(l) {
                return Err(mk("not-sorted-or-duplicates", format!("`{text}` {label}.{what}() = {l:?} is not strictly ascending")));
            }
        }
        let mut union: BTreeSet<String> = un.iter().cloned().collect();
        union.extend(bin.iter().cloned());
        let union: Vec<String> = union.into_iter().collect();
        if &union != all {
            return Err(mk("operator-reprs-not-union", format!("`{text}` {label}: operator_reprs {all:?} != union of {un:?} and {bin:?}")));
        }
        for (what, l, must, may) in [("unary", un, &un_var, &un_all), ("binary", bin, &bin_var, &bin_all)] {
            for m in must {
                if !l.contains(m) {
                    return Err(mk("operator-missing", format!("`{text}` {label}: {what} operator {m} is applied to a variable-dependent operand but not listed in {l:?}")));
                }
            }
            for x in l {
                if !may.contains(x) {
                    return Err(mk("operator-invented", format!("`{text}` {label}: {what} listing {l:?} contains {x}, which is not in the text")));
                }
            }
        }
    }
    if !const_sub {
        let base = &ls[0];
        for other in &ls[1..] {
            if other.1 != base.1 {
                return Err(mk(
                    "flat-deep-listings-differ",
                    format!("`{text}` has no constant sub-expression but listings differ: {} {:?} vs {} {:?}", base.0, base.1, other.0, other.1),
                ));
            }
        }
        if !un_all.is_empty() && !bin_all.is_empty() && st.nontrivial(&format!("{}|{}", case.text, describe_table(&case.table))) && st.want_sample() {
            let mut c = case.describe();
            c["listing"] = json!(ls[0].1 .2);
            st.sample(c);
        }
    }
    Ok(())
}

// ---------------------------------------------------------------------------------------------

const SOUP_ROUTES: [Route; 6] =
    [Route::Flat, Route::Deep, Route::FlatToDeep, Route::DeepToFlat, Route::FlatDeepFlat, Route::DeepFlatDeep];

fn convert_soup(tape: &[u32], st: &mut Stats) -> CaseResult {
    let mut t = Tape::new(tape);
    let case = gen_term_case(&mut t, &cfg_small());
    let (text, origin) = gen_soup(&mut t, &case.table, &case.pool, &case.toks);
    st.class(origin);
    differential("C03", &text, &case.table, &SOUP_ROUTES, origin, st)?;
    // listing invariants that need no tree: strictly ascending, operator_reprs = union
    let text_ref: &str = &text;
    let r = guard(|| -> Vec<(&'static str, Vec<String>, Vec<String>, Vec<String>)> {
        let mut v = vec![];
        if let Ok(f) = F::parse(text_ref) {
            v.push(("flat", f.unary_reprs().to_vec(), f.binary_reprs().to_vec(), f.operator_reprs().to_vec()));
        }
        if let Ok(d) = D::parse(text_ref) {
            v.push(("deep", d.unary_reprs().to_vec(), d.binary_reprs().to_vec(), d.operator_reprs().to_vec()));
        }
        v
    });
    let describe = || json!({"text": text, "table": describe_table(&case.table), "origin": origin});
    match r {
        Err(p) => Err(fail("C03/soup/listings/panic", format!("listing operators of `{text}` panics: {p}"), describe())),
        Ok(ls) => {
            for (form, un, bin, all) in ls {
                for l in [&un, &bin, &all] {
                    if !sorted_strict(l) {
                        return Err(fail("C03/soup/listings/not-sorted-or-duplicates", format!("`{text}` {form}: listing {l:?} is not strictly ascending"), describe()));
                    }
                }
                let mut u: BTreeSet<String> = un.iter().cloned().collect();
                u.extend(bin.iter().cloned());
                if u.into_iter().collect::<Vec<_>>() != all {
                    return Err(fail("C03/soup/listings/operator-reprs-not-union", format!("`{text}` {form}: operator_reprs {all:?} is not the union of {un:?} and {bin:?}"), describe()));
                }
            }
            Ok(())
        }
    }
}

// ---------------------------------------------------------------------------------------------
// Known finding F15: listed inputs, replayed deterministically.

pub const F15_INPUTS: [(&str, [f64; 3]); 3] = [
    ("/ (x / y) / z 2", [2.0, 4.0, 8.0]),
    ("* (x - y) - z 1", [2.0, 4.0, 8.0]),
    ("(/ (x / y) / z 2) + 1", [2.0, 4.0, 8.0]),
];

pub fn known_prefix_style(i: u64, st: &mut Stats) -> CaseResult {
    let (text, vals) = F15_INPUTS[i as usize];
    st.nontrivial(text);
    st.sample(json!({"text": text, "values": vals, "note": "listed input of known finding F15"}));
    let f = exmex::FlatEx::<f64>::parse(text).and_then(|e| e.eval(&vals));
    let d = exmex::DeepEx::<f64>::parse(text).and_then(|e| e.eval(&vals));
    match (f, d) {
        (Ok(a), Ok(b)) if a != b => Err(fail(
            "F15-prefix-style",
            format!("prefix-style text `{text}` accepted by both parsers; flat evaluates to {a}, deep to {b}"),
            json!({"text": text, "values": vals}),
        )),
        _ => Ok(()),
    }
}
fn n_f15(_: Tier) -> u64 {
    F15_INPUTS.len() as u64
}
pub fn f15_subcheck() -> SubCheck {
    SubCheck {
        name: "known_prefix_style",
        rule: "the listed inputs of known finding F15 (prefix 'function style' binary operator combined with a parenthesised group), default float operators; reported as KNOWN-FINDING while they still fail",
        kind: Kind::Indexed { n: n_f15, f: known_prefix_style, exhaustive: false },
    }
}

/// entry for the coverage-guided fuzz target (the bytes are the choice tape)
pub fn fuzz_entry(tape: &[u32], st: &mut Stats) -> CaseResult {
    convert_soup(tape, st)
}

pub fn def() -> PropDef {
    PropDef {
        id: "C03",
        level_text: "conversion histories on generated expressions checked after every step against the generated tree (variables and symbolic value); operator listings against sets computed from the tree; flat/deep/conversion agreement on arbitrary accepted strings",
        assumptions: vec![
            "priorities 0..=99 (conversions add 100 per nesting level)",
            "strings with a binary operator in prefix position are excluded from the arbitrary-string part (known finding F15) and counted",
        ],
        subs: vec![
            SubCheck {
                name: "convert_histories",
                rule: "tape -> table x tree(1-8 operands) x rendering x start form (parse | parse_wo_compile | DeepEx::parse) x 0-8 steps (to_deepex/from_deepex | clone | identity conversions); non-trivial = >=2 changes of form, >=1 parenthesised group, unary composition of length >=2; distinct by text+table+history",
                kind: Kind::Tape { len: 450, quick: 40_000, thorough: 2_000_000, f: convert_histories },
            },
            SubCheck {
                name: "convert_histories_long",
                rule: "as convert_histories with 1-100 operands (long one-level chains, nests), 0-4 steps; non-trivial = >=2 changes of form and >21 operands",
                kind: Kind::Tape { len: 2500, quick: 3_000, thorough: 150_000, f: convert_histories_long },
            },
            SubCheck {
                name: "convert_histories_towers",
                rule: "as convert_histories with 1-6 operands where about one node in fifteen carries a tower of 14-43 unary operators (a node of either form stores 16 inline), 0-6 steps; non-trivial as convert_histories",
                kind: Kind::Tape { len: 900, quick: 8_000, thorough: 400_000, f: convert_histories_towers },
            },
            SubCheck {
                name: "listings",
                rule: "tape -> table x tree x rendering (12% wide: tables of up to 34 binary + 17 unary operators, trees of up to 90 operands, so that more than 16 kinds of operators occur); unary_reprs/binary_reprs/operator_reprs of flat, unfolded flat, deep, flat->deep, deep->flat: strictly ascending, operator_reprs = union, superset of operators applied to variable-dependent operands, subset of operators in the tree, all equal if the tree has no variable-free sub-tree with an operator; non-trivial = unary and binary operators present and no such sub-tree",
                kind: Kind::Tape { len: 1500, quick: 30_000, thorough: 1_500_000, f: listings },
            },
            SubCheck {
                name: "convert_soup",
                rule: "tape -> table x (rendered expression with 0-3 token mutations | random token sequence); flat, deep and four conversion routes must agree when accepted; non-trivial = accepted by all routes",
                kind: Kind::Tape { len: 500, quick: 40_000, thorough: 2_000_000, f: convert_soup },
            },
            f15_subcheck(),
            crate::fuzzdrv::differential_subcheck(),
        ],
    }
}
