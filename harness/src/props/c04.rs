//! C04 — Variables are found, ordered and bound exactly as documented.
use super::PropDef;
use crate::gen::*;
use crate::runner::*;
use crate::tape::Tape;
use crate::tcase::*;
use crate::term::{describe_table, Term};
use exmex::prelude::*;
use serde_json::json;
use std::collections::BTreeSet;

/// variable pool with up to 26 names: bare identifiers (ASCII, Greek, underscore, extensions of
/// operator names), arbitrary braced texts, synthetic names to get beyond 16
fn big_pool(t: &mut Tape, table: &[crate::term::OpSpec]) -> VarPool {
    let n = [0usize, 1, 2, 3, 5, 8, 15, 16, 17, 18, 22, 26][t.choose(12)];
    let mut names: Vec<String> = vec![];
    let mut guard = 0;
    while names.len() < n && guard < 200 {
        guard += 1;
        let name = match t.choose(4) {
            0 => t.pick(&BARE_NAMES).to_string(),
            1 => t.pick(&BRACED_NAMES).to_string(),
            2 => format!("w{}", t.choose(40)),
            _ => format!("{}", t.choose(30)),
        };
        if !names.contains(&name) {
            names.push(name);
        }
    }
    let bare_ok = names.iter().map(|n| bare_name_ok(n, table)).collect();
    VarPool { names, bare_ok }
}

fn gen_case(t: &mut Tape) -> TermCase {
    let table = gen_table(t, &TableCfg { max_bin: 4, max_un: 2, max_const: 2, ..TableCfg::default() });
    let pool = big_pool(t, &table);
    let tree = gen_tree(
        t,
        &table,
        pool.names.len(),
        &TreeCfg { max_operands: 40, lit_pct: 15, unary_pct: 8, shape_weights: [5, 3, 1], ..TreeCfg::default() },
    );
    finish_case(t, table, pool, tree, &RenderCfg { brace_pct: 45, redundant_paren_pct: 4, ..RenderCfg::default() })
}

fn names_and_binding(tape: &[u32], st: &mut Stats) -> CaseResult {
    let mut t = Tape::new(tape);
    let case = gen_case(&mut t);
    let n = case.names.len();
    let weird = case.names.iter().any(|nm| !is_identifier(nm) || !nm.is_ascii());
    let mut occ = vec![0usize; case.pool.names.len()];
    fn count(tr: &Tree, occ: &mut Vec<usize>) {
        match tr {
            Tree::Var(i) => occ[*i] += 1,
            Tree::Un(_, a) => count(a, occ),
            Tree::Bin(_, a, b) => {
                count(a, occ);
                count(b, occ)
            }
            _ => {}
        }
    }
    count(&case.tree, &mut occ);
    let repeated = occ.iter().any(|c| *c >= 2);
    st.class(&format!("variables={}", match n { 0 => "0", 1..=2 => "1-2", 3..=16 => "3-16", _ => ">16" }));
    st.class_if(weird, "a name that needs braces or is non-ASCII");
    st.class_if(repeated, "a variable occurs >=2 times");
    st.class_if(case.info.braced_and_bare, "a variable spelled braced and bare");
    if (n >= 2 && weird || n > 16) && repeated && case.info.braced_and_bare {
        if st.nontrivial(&format!("{}|{}", case.text, describe_table(&case.table))) && st.want_sample() {
            st.sample(case.describe());
        }
    }
    // names, order and binding on all forms and conversions
    for r in [Route::Flat, Route::FlatWo, Route::Deep, Route::FlatToDeep, Route::DeepToFlat] {
        case.check_route("C04", r)?;
    }
    // arity
    let text: &str = &case.text;
    let extra: Vec<Term> = (0..3).map(|i| Term::Atom(900_000 + i)).collect();
    let mk = |k: &str, msg: String| fail(&format!("C04/arity/{k}"), msg, case.describe());
    let res = guard(|| -> Result<Option<Fail>, String> {
        let f = ex_msg(F::parse(text))?;
        let w = ex_msg(F::parse_wo_compile(text))?;
        let d = ex_msg(D::parse(text))?;
        for len in 0..n + 3 {
            let mut v: Vec<Term> = case.vals.iter().take(len).map(|x| x.clone_quiet()).collect();
            for e in extra.iter().take(len.saturating_sub(n)) {
                v.push(e.clone_quiet());
            }
            let exact = len == n;
            let enough = len >= n;
            let checks: Vec<(&str, Result<Term, String>, bool)> = vec![
                ("FlatEx::eval", ex_msg(f.eval(&v)), exact),
                ("FlatEx(unfolded)::eval", ex_msg(w.eval(&v)), exact),
                ("DeepEx::eval", ex_msg(d.eval(&v)), exact),
                ("FlatEx::eval_relaxed", ex_msg(f.eval_relaxed(&v)), enough),
                ("FlatEx(unfolded)::eval_relaxed", ex_msg(w.eval_relaxed(&v)), enough),
                ("DeepEx::eval_relaxed", ex_msg(d.eval_relaxed(&v)), enough),
                ("FlatEx::eval_vec", ex_msg(f.eval_vec(v.clone())), exact),
                ("FlatEx::eval_iter", ex_msg(f.eval_iter(v.clone().into_iter())), exact),
                ("FlatEx(unfolded)::eval_vec", ex_msg(w.eval_vec(v.clone())), exact),
            ];
            for (what, r, should_be_ok) in checks {
                match (r, should_be_ok) {
                    (Ok(_), false) => {
                        return Ok(Some(mk("accepted-wrong-length", format!("`{text}` has {n} variables but {what} with {len} values returns Ok"))))
                    }
                    (Err(e), true) => {
                        return Ok(Some(mk("rejected-right-length", format!("`{text}` has {n} variables and {what} with {len} values fails: {e}"))))
                    }
                    (Ok(v), true) => {
                        let vn = case.norm(&v);
                        if vn != case.refv {
                            return Ok(Some(mk("wrong-binding", format!("`{text}`: {what} with {len} values gives {vn:?}, expected {:?}", case.refv))));
                        }
                    }
                    (Err(_), false) => {}
                }
            }
        }
        Ok(None)
    });
    match res {
        Err(p) => Err(mk("panic", format!("`{text}`: panic while evaluating with a wrong number of values: {p}"))),
        Ok(Err(e)) => Err(mk("parse", format!("`{text}`: {e}"))),
        Ok(Ok(Some(f))) => Err(f),
        Ok(Ok(None)) => Ok(()),
    }
}

// ---------------------------------------------------------------------------------------------
// derived expressions: operator application and substitution (term algebra), derivative (f64)

fn subst_tree(tr: &Tree, replaced: &BTreeSet<usize>, by: &Tree) -> Tree {
    match tr {
        Tree::Var(i) if replaced.contains(i) => by.clone(),
        Tree::Un(o, a) => Tree::Un(*o, Box::new(subst_tree(a, replaced, by))),
        Tree::Bin(o, a, b) => Tree::Bin(*o, Box::new(subst_tree(a, replaced, by)), Box::new(subst_tree(b, replaced, by))),
        t => t.clone(),
    }
}

fn derived_names(tape: &[u32], st: &mut Stats) -> CaseResult {
    let mut t = Tape::new(tape);
    let table = gen_table(&mut t, &TableCfg { max_bin: 4, max_un: 2, max_const: 1, ..TableCfg::default() });
    let pool = big_pool(&mut t, &table);
    let tcfg = TreeCfg { max_operands: 12, lit_pct: 20, unary_pct: 10, ..TreeCfg::default() };
    let ta = gen_tree(&mut t, &table, pool.names.len(), &tcfg);
    let tb = gen_tree(&mut t, &table, pool.names.len(), &tcfg);
    let rcfg = RenderCfg { brace_pct: 45, ..RenderCfg::default() };
    let a = finish_case(&mut t, table.clone(), pool.clone(), ta, &rcfg);
    let b = finish_case(&mut t, table.clone(), pool.clone(), tb, &rcfg);
    let ti = TableIdx::new(&table);
    let op = *t.pick(&ti.bins);
    // replaced variables: a random subset of the pool
    let mut replaced: BTreeSet<usize> = BTreeSet::new();
    for i in 0..pool.names.len() {
        if t.chance(35) {
            replaced.insert(i);
        }
    }
    let mut ua = BTreeSet::new();
    vars_used(&a.tree, &mut ua);
    let mut ub = BTreeSet::new();
    vars_used(&b.tree, &mut ub);
    let disjoint = ua.is_disjoint(&ub);
    st.class_if(disjoint && !ua.is_empty() && !ub.is_empty(), "operands with disjoint variable sets");
    st.class_if(!disjoint && ua != ub, "operands with overlapping, different variable sets");
    let hit = replaced.intersection(&ua).next().is_some();
    st.class_if(hit, "substitution replaces an occurring variable");
    let combined = Tree::Bin(op, Box::new(a.tree.clone()), Box::new(b.tree.clone()));
    let (exp_bin_names, _) = expected_vars(&combined, &pool);
    let substituted = subst_tree(&a.tree, &replaced, &b.tree);
    let (exp_sub_names, _) = expected_vars(&substituted, &pool);
    if ua != ub && (ua.len() + ub.len() >= 3) {
        if st.nontrivial(&format!("{}|{}|{}", a.text, b.text, describe_table(&table))) && st.want_sample() {
            st.sample(json!({"a": a.text, "b": b.text, "op": table[op].name, "replaced": replaced.iter().map(|i| pool.names[*i].clone()).collect::<Vec<_>>(), "expected_union": exp_bin_names, "expected_after_subs": exp_sub_names}));
        }
    }
    let (ta_, tb_): (&str, &str) = (&a.text, &b.text);
    let opname = table[op].name;
    let describe = || json!({"a": a.text, "b": b.text, "op": opname, "table": describe_table(&table), "replaced": replaced.iter().map(|i| pool.names[*i].clone()).collect::<Vec<_>>()});
    let names_of_replaced: Vec<String> = replaced.iter().map(|i| pool.names[*i].clone()).collect();
    let res = guard(|| -> Result<Vec<(&'static str, Vec<String>, Vec<String>)>, String> {
        let fa = ex_msg(F::parse(ta_))?;
        let fb = ex_msg(F::parse(tb_))?;
        let da = ex_msg(D::parse(ta_))?;
        let db = ex_msg(D::parse(tb_))?;
        let mut out = vec![];
        let r = ex_msg(fa.clone().operate_binary(fb.clone(), opname))?;
        out.push(("FlatEx::operate_binary", r.var_names().to_vec(), exp_bin_names.clone()));
        let r = ex_msg(da.clone().operate_binary(db.clone(), opname))?;
        out.push(("DeepEx::operate_binary", r.var_names().to_vec(), exp_bin_names.clone()));
        let mut sf = |name: &str| if names_of_replaced.iter().any(|n| n == name) { Some(fb.clone()) } else { None };
        let r = ex_msg(fa.clone().subs(&mut sf))?;
        out.push(("FlatEx::subs", r.var_names().to_vec(), exp_sub_names.clone()));
        let mut sd = |name: &str| if names_of_replaced.iter().any(|n| n == name) { Some(db.clone()) } else { None };
        let r = ex_msg(da.clone().subs(&mut sd))?;
        out.push(("DeepEx::subs", r.var_names().to_vec(), exp_sub_names.clone()));
        Ok(out)
    });
    match res {
        Err(p) => Err(fail("C04/derived/panic", format!("panic deriving from `{ta_}` and `{tb_}`: {p}"), describe())),
        Ok(Err(e)) => Err(fail("C04/derived/error", format!("deriving from `{ta_}` and `{tb_}` fails: {e}"), describe())),
        Ok(Ok(list)) => {
            for (what, got, want) in list {
                if got != want {
                    return Err(fail(
                        &format!("C04/derived/{what}/names"),
                        format!("{what} on `{ta_}` and `{tb_}`: var_names {got:?}, expected the sorted union {want:?}"),
                        describe(),
                    ));
                }
            }
            Ok(())
        }
    }
}

/// derivative keeps exactly the variable list of its antiderivative (default float operators)
fn derivative_names(tape: &[u32], st: &mut Stats) -> CaseResult {
    let mut t = Tape::new(tape);
    let n = 1 + t.choose(20);
    let mut names: Vec<String> = vec![];
    let mut attempts = 0;
    while names.len() < n {
        attempts += 1;
        // an exhausted (shrunk) tape keeps drawing the same name: fall back to fresh ones
        let name = if attempts > 100 { format!("w{}", 100 + names.len()) } else { String::new() };
        let name = if !name.is_empty() { name } else { match t.choose(3) {
            0 => t.pick(&BARE_NAMES).to_string(),
            1 => t.pick(&BRACED_NAMES).to_string(),
            _ => format!("w{}", t.choose(40)),
        } };
        let float_ops = ["sin", "cos", "e", "E", "PI", "π", "τ", "TAU", "max", "min", "abs", "log", "ln", "exp"];
        if !names.contains(&name) && !float_ops.contains(&name.as_str()) && !name.starts_with("max") && !name.starts_with("min") && !name.starts_with("atan2") {
            names.push(name);
        }
    }
    // expression: sum of terms  c * v_i (^2 | sin | plain), some variables only inside vanishing terms
    let mut text = String::new();
    let n_terms = 1 + t.choose(2 * n);
    let mut used: BTreeSet<String> = BTreeSet::new();
    for k in 0..n_terms {
        let v = &names[t.choose(n)];
        used.insert(v.clone());
        if k > 0 {
            text.push_str([" + ", " - ", " * "][t.choose(3)]);
        }
        let vs = format!("{{{v}}}");
        text.push_str(&match t.choose(4) {
            0 => vs,
            1 => format!("{vs}^2"),
            2 => format!("sin({vs})"),
            _ => format!("2.5*{vs}"),
        });
    }
    let sorted: Vec<String> = used.into_iter().collect();
    let text: &str = &text;
    let idx = t.choose(sorted.len());
    let idx2 = t.choose(sorted.len());
    st.class(&format!("variables={}", match sorted.len() { 1..=2 => "1-2", 3..=16 => "3-16", _ => ">16" }));
    if sorted.len() >= 2 && st.nontrivial(&format!("{text}|{idx}|{idx2}")) && st.want_sample() {
        st.sample(json!({"text": text, "wrt": [idx, idx2], "vars": sorted}));
    }
    // a second expression over a random subset of the pool (possibly names the first does not use)
    let other_names: Vec<String> = (0..1 + t.choose(3)).map(|_| names[t.choose(n)].clone()).collect();
    let other_text: String = other_names.iter().map(|v| format!("{{{v}}}")).collect::<Vec<_>>().join([" + ", " * "][t.choose(2)]);
    let other_text: &str = &other_text;
    let union: Vec<String> = sorted.iter().cloned().chain(other_names.iter().cloned()).collect::<BTreeSet<String>>().into_iter().collect();
    st.class_if(union.len() > sorted.len(), "operator application adds names to a derivative's list");
    let combined: std::cell::RefCell<Vec<(&'static str, Vec<String>)>> = std::cell::RefCell::new(vec![]);
    let res = guard(|| -> Result<Vec<(&'static str, Vec<String>)>, String> {
        let f = ex_msg(exmex::FlatEx::<f64>::parse(text))?;
        let d = ex_msg(exmex::DeepEx::<f64>::parse(text))?;
        if f.var_names() != &sorted[..] {
            return Err(format!("var_names {:?} expected {:?}", f.var_names(), sorted));
        }
        let mut out = vec![];
        let f1 = ex_msg(f.clone().partial(idx))?;
        out.push(("FlatEx::partial", f1.var_names().to_vec()));
        let f2 = ex_msg(f1.partial(idx2))?;
        out.push(("FlatEx::partial.partial", f2.var_names().to_vec()));
        let d1 = ex_msg(d.clone().partial(idx))?;
        out.push(("DeepEx::partial", d1.var_names().to_vec()));
        let d2 = ex_msg(d.partial_iter([idx, idx2].into_iter()))?;
        out.push(("DeepEx::partial_iter", d2.var_names().to_vec()));
        // the same slice evaluates the derivative
        let vals: Vec<f64> = (0..sorted.len()).map(|i| 0.5 + i as f64 * 0.25).collect();
        ex_msg(f2.eval(&vals))?;
        ex_msg(d2.eval(&vals))?;
        // arity of derived expressions (they may have folded to a number but still list names)
        let n = sorted.len();
        let short: Vec<f64> = vals[..n - 1].to_vec();
        let long: Vec<f64> = vals.iter().cloned().chain([9.0, 9.5]).collect();
        let checks: Vec<(&'static str, bool, bool)> = vec![
            ("FlatEx derivative: eval with n-1 values", f2.eval(&short).is_err(), true),
            ("FlatEx derivative: eval with n+2 values", f2.eval(&long).is_err(), true),
            ("FlatEx derivative: eval_relaxed with n-1 values", f2.eval_relaxed(&short).is_err(), true),
            ("FlatEx derivative: eval_relaxed with n+2 values", f2.eval_relaxed(&long).is_ok(), true),
            ("FlatEx derivative: eval_vec with n-1 values", f2.eval_vec(short.clone()).is_err(), true),
            ("FlatEx derivative: eval_iter with n+2 values", f2.eval_iter(long.clone().into_iter()).is_err(), true),
            ("DeepEx derivative: eval with n-1 values", d2.eval(&short).is_err(), true),
            ("DeepEx derivative: eval with n+2 values", d2.eval(&long).is_err(), true),
            ("DeepEx derivative: eval_relaxed with n-1 values", d2.eval_relaxed(&short).is_err(), true),
            ("DeepEx derivative: eval_relaxed with n+2 values", d2.eval_relaxed(&long).is_ok(), true),
        ];
        for (what, got, want) in checks {
            if got != want {
                return Err(format!("arity: {what} is {}", if what.contains("relaxed with n+2") { "rejected" } else { "accepted" }));
            }
        }
        // operator application on a derivative (which often vanished but still carries its names)
        let o = ex_msg(exmex::DeepEx::<f64>::parse(other_text))?;
        let uvals: Vec<f64> = (0..union.len()).map(|i| 0.5 + i as f64 * 0.25).collect();
        let combos: Vec<(&'static str, exmex::ExResult<exmex::DeepEx<f64>>)> = vec![
            ("derivative + other", d2.clone() + o.clone()),
            ("other + derivative", o.clone() + d2.clone()),
            ("derivative - other", d2.clone() - o.clone()),
            ("derivative * other", d2.clone() * o.clone()),
            ("other * derivative", o.clone() * d2.clone()),
            ("derivative / other", d2.clone() / o.clone()),
            ("operate_binary(derivative, other, +)", d2.clone().operate_binary(o.clone(), "+")),
            ("FlatEx: operate_binary(derivative, other, *)", Ok(d2.clone())),
        ];
        for (what, r) in combos {
            let names = if what.starts_with("FlatEx") {
                let fo = ex_msg(exmex::FlatEx::<f64>::parse(other_text))?;
                let r = ex_msg(f2.clone().operate_binary(fo, "*"))?;
                ex_msg(r.eval(&uvals))?;
                r.var_names().to_vec()
            } else {
                let r = ex_msg(r)?;
                ex_msg(r.eval(&uvals)).map_err(|e| format!("{what}: eval with {} values fails: {e}", uvals.len()))?;
                r.var_names().to_vec()
            };
            combined.borrow_mut().push((what, names));
        }
        Ok(out)
    });
    let describe = || json!({"text": text, "wrt": [idx, idx2], "vars": sorted, "other": other_text});
    match res {
        Err(p) => Err(fail("C04/derivative/panic", format!("panic differentiating `{text}`: {p}"), describe())),
        Ok(Err(e)) => Err(fail("C04/derivative/error", format!("differentiating `{text}` fails: {e}"), describe())),
        Ok(Ok(list)) => {
            for (what, got) in list {
                if got != sorted {
                    return Err(fail(
                        &format!("C04/derivative/{what}/names"),
                        format!("{what} of `{text}`: var_names {got:?}, antiderivative has {sorted:?}"),
                        describe(),
                    ));
                }
            }
            for (what, got) in combined.into_inner() {
                if got != union {
                    return Err(fail(
                        &format!("C04/derivative/{what}/names"),
                        format!("{what} (derivative of `{text}` along {:?}, other = `{other_text}`): var_names {got:?}, expected the sorted union {union:?}", [idx, idx2]),
                        describe(),
                    ));
                }
            }
            Ok(())
        }
    }
}

pub fn def() -> PropDef {
    PropDef {
        id: "C04",
        level_text: "generated name pools (0-26 names incl. arbitrary braced text) x trees with repeated occurrences x spellings; var_names against an independently sorted set, binding decided symbolically (atom per name), arity over all slice lengths 0..n+2 for every evaluation entry point; derived expressions against the sorted union computed from the trees",
        assumptions: vec![
            "Rust string order = str::cmp (BTreeSet<String>)",
            "bare variable names never start with the name of an alphabetic binary operator",
        ],
        subs: vec![
            SubCheck {
                name: "names_and_binding",
                rule: "tape -> table x pool(0-26 names) x tree(1-40 operands, 85% variables) x rendering(45% braced); forms flat, unfolded, deep, flat->deep, deep->flat; eval/eval_relaxed/eval_vec/eval_iter with 0..n+2 values; non-trivial = (>=2 names with one needing braces/non-ASCII, or >16 names) and a variable occurring >=2 times and spelled both ways; distinct by text+table",
                kind: Kind::Tape { len: 700, quick: 20_000, thorough: 1_000_000, f: names_and_binding },
            },
            SubCheck {
                name: "derived_names",
                rule: "tape -> two expressions over one pool x binary operator x replaced subset; operate_binary and subs on FlatEx and DeepEx: var_names = sorted union computed from the trees; non-trivial = operands with different variable sets (>=3 names in total)",
                kind: Kind::Tape { len: 600, quick: 20_000, thorough: 1_000_000, f: derived_names },
            },
            SubCheck {
                name: "derivative_names",
                rule: "tape -> 1-20 names (incl. braced) x sum/product of simple terms (default float operators) x two indices; partial, partial.partial, partial_iter on FlatEx and DeepEx keep exactly the antiderivative's list and evaluate with the same slice; the derivatives obey the arity rules of every evaluation entry point (n-1 and n+2 values); the (often vanished) second derivative combined with a second expression by + - * / and operate_binary lists the sorted union and evaluates with that many values; non-trivial = >=2 variables",
                kind: Kind::Tape { len: 200, quick: 3_000, thorough: 200_000, f: derivative_names },
            },
        ],
    }
}
