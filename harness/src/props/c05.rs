//! C05 — A partial derivative evaluates to the mathematical derivative.
use super::PropDef;
use crate::calc::*;
use crate::q::{QMatcher, QOps, Q};
use crate::runner::*;
use crate::tape::Tape;
use crate::tcase::ex_msg;
use exmex::prelude::*;
use exmex::DeepEx;
use serde_json::json;

pub type FQ = FlatEx<Q, QOps, QMatcher>;
pub type DQ<'a> = DeepEx<'a, Q, QOps, QMatcher>;

/// sorted names of the variables used and, per sorted position, the index into VAR_NAMES
pub fn sorted_vars(t: &CT) -> (Vec<String>, Vec<usize>) {
    let mut used = vec![];
    ct_vars(t, &mut used);
    let mut v: Vec<(String, usize)> = used.iter().map(|i| (VAR_NAMES[*i].to_string(), *i)).collect();
    v.sort();
    (v.iter().map(|x| x.0.clone()).collect(), v.iter().map(|x| x.1).collect())
}

pub fn gen_point(t: &mut Tape, n: usize) -> Vec<f64> {
    // signed points (style 2) for two cases in five: sign errors only show at negative arguments
    let style = t.weighted(&[3, 1, 4, 2]);
    (0..n)
        .map(|_| match style {
            0 => 0.3 + t.unit_f64() * 2.0,
            1 => 0.1 + t.unit_f64() * 0.8,
            2 => -2.0 + t.unit_f64() * 4.0,
            _ => 1.1 + t.unit_f64() * 3.0,
        })
        .collect()
}

#[derive(Clone, Copy, Debug)]
pub enum Start {
    FlatParse,
    DeepParse,
    FlatToDeep,
    DeepToFlat,
    FlatUnfolded,
}
pub const STARTS: [Start; 5] = [Start::FlatParse, Start::DeepParse, Start::FlatToDeep, Start::DeepToFlat, Start::FlatUnfolded];

/// first and second derivatives (library) evaluated at the points: Err(msg) if the library fails
/// returns per point: (f', f'') where f'' = d/dx_j d/dx_i
fn lib_derivatives(
    text: &str,
    start: Start,
    i: usize,
    j: usize,
    points: &[Vec<f64>],
) -> Result<(Vec<String>, Vec<(f64, f64)>, String), String> {
    macro_rules! go {
        ($e:expr) => {{
            let e = $e;
            let names = e.var_names().to_vec();
            let d1 = ex_msg(e.clone().partial(i))?;
            if d1.var_names() != &names[..] {
                return Err(format!("derivative lists variables {:?}, antiderivative {:?}", d1.var_names(), names));
            }
            let d2 = ex_msg(d1.clone().partial(j))?;
            let mut out = vec![];
            for p in points {
                out.push((ex_msg(d1.eval(p))?, ex_msg(d2.eval(p))?));
            }
            Ok((names, out, d1.unparse().to_string()))
        }};
    }
    // derivatives are flat expressions with vanished and repeated variables: the owning entry
    // points must agree bit for bit with the borrowing one
    macro_rules! go_flat {
        ($e:expr) => {{
            let e = $e;
            let d1 = ex_msg(e.clone().partial(i))?;
            for p in points {
                let a = ex_msg(d1.eval(p))?;
                let b = ex_msg(d1.eval_vec(p.clone())).map_err(|m| format!("eval_vec of the derivative fails: {m}"))?;
                let c = ex_msg(d1.eval_iter(p.iter().copied())).map_err(|m| format!("eval_iter of the derivative fails: {m}"))?;
                if a.to_bits() != b.to_bits() && !(a.is_nan() && b.is_nan()) || a.to_bits() != c.to_bits() && !(a.is_nan() && c.is_nan()) {
                    return Err(format!("derivative `{}` at {p:?}: eval {a}, eval_vec {b}, eval_iter {c}", d1.unparse()));
                }
            }
            go!(e)
        }};
    }
    match start {
        Start::FlatParse => go_flat!(ex_msg(exmex::FlatEx::<f64>::parse(text))?),
        Start::FlatUnfolded => go_flat!(ex_msg(exmex::FlatEx::<f64>::parse_wo_compile(text))?),
        Start::DeepParse => go!(ex_msg(DeepEx::<f64>::parse(text))?),
        Start::FlatToDeep => go!(ex_msg(ex_msg(exmex::FlatEx::<f64>::parse(text))?.to_deepex())?),
        Start::DeepToFlat => go_flat!(ex_msg(exmex::FlatEx::<f64>::from_deepex(ex_msg(DeepEx::<f64>::parse(text))?))?),
    }
}

fn run_f64(tape: &[u32], st: &mut Stats, max_size: usize, nondiff_pct: u32) -> CaseResult {
    let mut t = Tape::new(tape);
    let cfg = CalcCfg { max_size, nvars: 1 + t.choose(3), rational_only: false, nondiff_pct, unary_pct: 30 };
    let size = 1 + t.choose(max_size);
    let mut tree = gen_ct(&mut t, &cfg, size);
    // one case in twelve: the tree sits inside 6-13 nested affine wrappers 0.5+2.0*( ... ) / (...)*0.5-1.0,
    // i.e. at parenthesis depth >= 10 for the longer ones (depth-dependent encodings of priorities)
    if t.chance(8) {
        let k = 6 + t.choose(8);
        for layer in 0..k {
            let num = |s: &str| Box::new(CT::Num(s.to_string()));
            tree = if layer % 2 == 0 {
                CT::Bin("+", num("0.5"), Box::new(CT::Bin("*", num("2.0"), Box::new(tree))))
            } else {
                CT::Bin("-", Box::new(CT::Bin("*", Box::new(tree), num("0.5"))), num("1.0"))
            };
        }
        st.class_if(k >= 10, "tree nested >= 10 parentheses deep");
        st.class("tree inside 6-13 affine wrappers");
    }
    let (names, idxs) = sorted_vars(&tree);
    if names.is_empty() {
        st.excluded("expression without variables");
        return Ok(());
    }
    let text = render_ct(&tree, &mut t);
    let start = STARTS[t.choose(STARTS.len())];
    let i = t.choose(names.len());
    let j = t.choose(names.len());
    // candidate points; the reference decides which are in the interior of the domain
    let mut points: Vec<Vec<f64>> = vec![];
    let mut refs: Vec<(f64, f64)> = vec![];
    let mut senss: Vec<(f64, f64)> = vec![];
    let mut tries = 0;
    while points.len() < 6 && tries < 24 {
        tries += 1;
        let p = gen_point(&mut t, names.len());
        // full vector indexed by VAR_NAMES position
        let mut full: Vec<Dual<Dual<f64>>> =
            (0..VAR_NAMES.len()).map(|_| Dual { v: Dual { v: 1.0, d: 0.0 }, d: Dual { v: 0.0, d: 0.0 } }).collect();
        for (pos, vi) in idxs.iter().enumerate() {
            full[*vi] = Dual {
                v: Dual { v: p[pos], d: if pos == j { 1.0 } else { 0.0 } },
                d: Dual { v: if pos == i { 1.0 } else { 0.0 }, d: 0.0 },
            };
        }
        let mut ok = true;
        let r = eval_ct(&tree, &full, &mut ok);
        if ok && r.d.v.is_finite() && r.d.d.is_finite() {
            // conditioning of both derivatives at this point
            let mk = |q: &[f64]| -> Vec<Dual<Dual<f64>>> {
                let mut fl = full.clone();
                for (pos, vi) in idxs.iter().enumerate() {
                    fl[*vi].v.v = q[pos];
                }
                fl
            };
            let f1 = |q: &[f64]| {
                let mut o = true;
                let r = eval_ct(&tree, &mk(q), &mut o);
                o.then_some(r.d.v)
            };
            let f2 = |q: &[f64]| {
                let mut o = true;
                let r = eval_ct(&tree, &mk(q), &mut o);
                o.then_some(r.d.d)
            };
            if let (Some(s1), Some(s2)) = (sensitivity(&f1, &p), sensitivity(&f2, &p)) {
                points.push(p);
                refs.push((r.d.v, r.d.d));
                senss.push((s1, s2));
            }
        }
    }
    let has_nondiff = ct_has_any_nondiff(&tree);
    let mut facts = CtFacts::default();
    ct_facts(&tree, &mut facts);
    st.class_if(facts.product, "product of variable-dependent factors");
    st.class_if(facts.quotient, "quotient with variable-dependent divisor");
    st.class_if(facts.var_exponent, "power with variable exponent");
    st.class_if(facts.unary_chain2, "unary composition length>=2");
    st.class_if(has_nondiff, "contains an operator without derivative rule");
    st.class(&format!("start={start:?}"));
    if points.is_empty() {
        st.class("vacuous: no interior point found in 24 tries");
        // still: the library must not panic
        let r = guard(|| lib_derivatives(&text, start, i, j, &[]));
        return match r {
            Err(p) => Err(fail("C05/panic", format!("partial of `{text}` panics: {p}"), json!({"text": text, "start": format!("{start:?}")}))),
            Ok(_) => Ok(()),
        };
    }
    let nonconstant = refs.iter().any(|r| (r.0 - refs[0].0).abs() > 1e-9) || facts.product || facts.quotient || facts.var_exponent;
    if nonconstant && (facts.product || facts.quotient || facts.var_exponent || facts.unary_chain2) {
        if st.nontrivial(&format!("{text}|{i}|{j}|{start:?}")) && st.want_sample() {
            st.sample(json!({"text": text, "wrt": [names[i], names[j]], "start": format!("{start:?}"), "point": points[0], "reference": [refs[0].0, refs[0].1]}));
        }
    }
    let describe = |extra: serde_json::Value| json!({"text": text, "start": format!("{start:?}"), "wrt_first": names[i], "wrt_second": names[j], "vars": names, "detail": extra});
    match guard(|| lib_derivatives(&text, start, i, j, &points)) {
        Err(p) => Err(fail("C05/panic", format!("partial of `{text}` panics: {p}"), describe(json!(null)))),
        Ok(Err(e)) => {
            if has_nondiff {
                st.class("operator without rule: differentiation fails with an error (accepted)");
                Ok(())
            } else {
                Err(fail("C05/error-on-differentiable", format!("`{text}` is differentiable but partial fails: {e}"), describe(json!(null))))
            }
        }
        Ok(Ok((_names, vals, dtext))) => {
            if has_nondiff {
                st.class("operator without rule: Ok returned, compared with the true derivative");
                // the property's last sentence, literally: an operator without a rule that is applied
                // to a variable-dependent operand (so that it cannot be folded away) makes
                // differentiation fail - also w.r.t. a variable the operand does not depend on
                if ct_has_nondiff_on_var(&tree) {
                    return Err(fail("C05/no-error-for-operator-without-rule", format!("`{text}` applies an operator without derivative rule to a variable-dependent operand, but differentiation returns Ok (`{dtext}`)"), describe(json!(null))));
                }
            }
            for (k, (lib, r)) in vals.iter().zip(refs.iter()).enumerate() {
                if !close_cond(lib.0, r.0, 1e-6, senss[k].0) {
                    return Err(fail(
                        if has_nondiff { "C05/wrong-derivative-instead-of-error" } else { "C05/first-derivative" },
                        format!("d/d{} of `{text}` at {:?}: library {} (`{dtext}`), true derivative {}", names[i], points[k], lib.0, r.0),
                        describe(json!({"point": points[k], "library": lib.0, "reference": r.0, "derivative_text": dtext})),
                    ));
                }
                if !close_cond(lib.1, r.1, 1e-5, senss[k].1) {
                    return Err(fail(
                        if has_nondiff { "C05/wrong-derivative-instead-of-error" } else { "C05/second-derivative" },
                        format!("d/d{} d/d{} of `{text}` at {:?}: library {}, true derivative {}", names[j], names[i], points[k], lib.1, r.1),
                        describe(json!({"point": points[k], "library": lib.1, "reference": r.1})),
                    ));
                }
            }
            Ok(())
        }
    }
}

fn derivative_f64(tape: &[u32], st: &mut Stats) -> CaseResult {
    run_f64(tape, st, 8, 0)
}
fn derivative_f64_large(tape: &[u32], st: &mut Stats) -> CaseResult {
    run_f64(tape, st, 14, 0)
}
fn nondifferentiable(tape: &[u32], st: &mut Stats) -> CaseResult {
    run_f64(tape, st, 7, 25)
}

// ---------------------------------------------------------------------------------------------
// scaled monomials: derivatives known in closed form, compared *relatively* (1e-11), with constant
// factors from 1e-50 to 1e17 - the absolute floor of the tolerances above cannot see a wrong
// derivative of magnitude 1e-17

pub const SCALES: [&str; 6] = [
    "0.00000000000000001",
    "0.000000000000000000003",
    "100000000000000000.0",
    "2.5",
    "0.00000000000000000000000000000000000000000000000001",
    "0.0000000000000002220446049250313",
];
/// (template over x, y with {c}; first derivative d/dx; second derivative d2/dx2) as closures of (c, x, y)
pub type Form = (&'static str, fn(f64, f64, f64) -> f64, fn(f64, f64, f64) -> f64);
pub const FORMS: [Form; 10] = [
    ("{c}*x*x", |c, x, _| 2.0 * c * x, |c, _, _| 2.0 * c),
    ("x/{c}", |c, _, _| 1.0 / c, |_, _, _| 0.0),
    ("{c}*x^3", |c, x, _| 3.0 * c * x * x, |c, x, _| 6.0 * c * x),
    ("x*{c}*y", |c, _, y| c * y, |_, _, _| 0.0),
    ("{c}/x", |c, x, _| -c / (x * x), |c, x, _| 2.0 * c / (x * x * x)),
    ("sin({c}*x)", |c, x, _| c * (c * x).cos(), |c, x, _| -c * c * (c * x).sin()),
    ("({c}+x)*({c}+x)", |c, x, _| 2.0 * (c + x), |_, _, _| 2.0),
    ("x^2*{c}+x*{c}", |c, x, _| c * (2.0 * x + 1.0), |c, _, _| 2.0 * c),
    ("exp(x)*{c}", |c, x, _| c * x.exp(), |c, x, _| c * x.exp()),
    ("y*{c}-x*{c}*y", |c, _, y| -c * y, |_, _, _| 0.0),
];
pub const MONO_POINTS: [(f64, f64); 3] = [(0.3, 1.3), (1.7, -0.4), (-2.2, 2.0)];
pub fn rel_close(a: f64, b: f64) -> bool {
    a == b || (a - b).abs() <= 1e-11 * a.abs().max(b.abs())
}

fn n_mono(_: Tier) -> u64 {
    (FORMS.len() * SCALES.len()) as u64
}
fn scaled_monomials(i: u64, st: &mut Stats) -> CaseResult {
    let (form, lit) = (&FORMS[i as usize / SCALES.len()], SCALES[i as usize % SCALES.len()]);
    let c: f64 = lit.parse().unwrap();
    let text = form.0.replace("{c}", lit);
    st.nontrivial(&text);
    if st.want_sample() {
        st.sample(json!({"text": text, "constant": c}));
    }
    let describe = || json!({"text": text, "constant": c});
    type R = Result<Vec<(&'static str, Vec<f64>, Vec<f64>)>, String>;
    let res = guard(|| -> R {
        let mut out = vec![];
        let has_y = text.contains('y');
        let pts: Vec<Vec<f64>> = MONO_POINTS.iter().map(|(x, y)| if has_y { vec![*x, *y] } else { vec![*x] }).collect();
        let ev = |e: &dyn Fn(&[f64]) -> exmex::ExResult<f64>| -> Result<Vec<f64>, String> { pts.iter().map(|p| ex_msg(e(p))).collect() };
        let f = ex_msg(exmex::FlatEx::<f64>::parse(&text))?;
        let f1 = ex_msg(f.clone().partial(0))?;
        let f2 = ex_msg(f1.clone().partial(0))?;
        out.push(("FlatEx::partial, .partial", ev(&|p| f1.eval(p))?, ev(&|p| f2.eval(p))?));
        let w = ex_msg(exmex::FlatEx::<f64>::parse_wo_compile(&text))?;
        let w1 = ex_msg(w.partial(0))?;
        let w2 = ex_msg(f.clone().partial_nth(0, 2))?;
        out.push(("parse_wo_compile.partial / FlatEx::partial_nth(0,2)", ev(&|p| w1.eval(p))?, ev(&|p| w2.eval(p))?));
        let d = ex_msg(exmex::DeepEx::<f64>::parse(&text))?;
        let d1 = ex_msg(d.clone().partial(0))?;
        let d2 = ex_msg(d.partial_iter([0usize, 0].into_iter()))?;
        out.push(("DeepEx::partial / partial_iter([0,0])", ev(&|p| d1.eval(p))?, ev(&|p| d2.eval(p))?));
        Ok(out)
    });
    match res {
        Err(p) => Err(fail("C05/scaled/panic", format!("differentiating `{text}` panics: {p}"), describe())),
        Ok(Err(e)) => Err(fail("C05/scaled/error", format!("`{text}` is differentiable but fails: {e}"), describe())),
        Ok(Ok(list)) => {
            for (route, firsts, seconds) in list {
                for (k, (x, y)) in MONO_POINTS.iter().enumerate() {
                    let (r1, r2) = ((form.1)(c, *x, *y), (form.2)(c, *x, *y));
                    if !rel_close(firsts[k], r1) {
                        return Err(fail("C05/scaled/first-derivative", format!("{route}: d/dx of `{text}` at x={x}, y={y}: library {}, closed form {r1}", firsts[k]), describe()));
                    }
                    if !rel_close(seconds[k], r2) {
                        return Err(fail("C05/scaled/second-derivative", format!("{route}: d2/dx2 of `{text}` at x={x}, y={y}: library {}, closed form {r2}", seconds[k]), describe()));
                    }
                }
            }
            Ok(())
        }
    }
}

// ---------------------------------------------------------------------------------------------
// exact: rational sub-language over Q

pub const Q_POINTS: [(i64, i64); 10] = [(1, 2), (3, 1), (-2, 3), (5, 4), (2, 1), (-1, 1), (7, 3), (1, 3), (-5, 2), (1, 1)];

fn derivative_exact(tape: &[u32], st: &mut Stats) -> CaseResult {
    let mut t = Tape::new(tape);
    let cfg = CalcCfg { max_size: 9, nvars: 1 + t.choose(3), rational_only: true, nondiff_pct: 0, unary_pct: 12 };
    let size = 1 + t.choose(cfg.max_size);
    let tree = gen_ct(&mut t, &cfg, size);
    let (names, idxs) = sorted_vars(&tree);
    if names.is_empty() {
        st.excluded("expression without variables");
        return Ok(());
    }
    let text = render_ct(&tree, &mut t);
    let i = t.choose(names.len());
    let j = t.choose(names.len());
    let deep = t.chance(50);
    let mut points: Vec<Vec<Q>> = vec![];
    let mut refs: Vec<(Q, Q)> = vec![];
    for _ in 0..8 {
        let p: Vec<Q> = (0..names.len()).map(|_| { let (n, d) = *t.pick(&Q_POINTS); Q::ratio(n, d) }).collect();
        let mut full: Vec<Dual<Dual<Q>>> = (0..VAR_NAMES.len())
            .map(|_| Dual { v: Dual { v: Q::int(1), d: Q::int(0) }, d: Dual { v: Q::int(0), d: Q::int(0) } })
            .collect();
        for (pos, vi) in idxs.iter().enumerate() {
            full[*vi] = Dual {
                v: Dual { v: p[pos].clone(), d: Q::int((pos == j) as i64) },
                d: Dual { v: Q::int((pos == i) as i64), d: Q::int(0) },
            };
        }
        let mut ok = true;
        let r = eval_ct(&tree, &full, &mut ok);
        // exact arithmetic: only definedness matters (no margins needed except the ones eval_ct
        // applies uniformly; they merely discard points)
        if ok && r.defined() {
            points.push(p);
            refs.push((r.d.v.clone(), r.d.d.clone()));
        }
        if points.len() >= 4 {
            break;
        }
    }
    if points.is_empty() {
        st.class("vacuous: no defined point");
        return Ok(());
    }
    let mut facts = CtFacts::default();
    ct_facts(&tree, &mut facts);
    st.class_if(facts.product, "product of variable-dependent factors");
    st.class_if(facts.quotient, "quotient with variable-dependent divisor");
    st.class_if(facts.power, "integer power");
    if (facts.product || facts.quotient || facts.power) && st.nontrivial(&format!("{text}|{i}|{j}|{deep}")) && st.want_sample() {
        st.sample(json!({"text": text, "wrt": [names[i], names[j]], "point": format!("{:?}", points[0]), "reference": format!("{:?}", refs[0])}));
    }
    let describe = || json!({"text": text, "wrt_first": names[i], "wrt_second": names[j], "deep": deep});
    let res = guard(|| -> Result<Vec<(Q, Q)>, String> {
        let mut out = vec![];
        if deep {
            let e = ex_msg(DQ::parse(&text))?;
            let d1 = ex_msg(e.partial(i))?;
            let d2 = ex_msg(d1.clone().partial(j))?;
            for p in &points {
                out.push((ex_msg(d1.eval(p))?, ex_msg(d2.eval(p))?));
            }
        } else {
            let e = ex_msg(FQ::parse(&text))?;
            let d1 = ex_msg(e.partial(i))?;
            let d2 = ex_msg(d1.clone().partial(j))?;
            for p in &points {
                out.push((ex_msg(d1.eval(p))?, ex_msg(d2.eval(p))?));
            }
        }
        Ok(out)
    });
    match res {
        Err(p) => Err(fail("C05/exact/panic", format!("partial of `{text}` over exact rationals panics: {p}"), describe())),
        Ok(Err(e)) => Err(fail("C05/exact/error", format!("partial of `{text}` fails: {e}"), describe())),
        Ok(Ok(vals)) => {
            for (k, (lib, r)) in vals.iter().zip(refs.iter()).enumerate() {
                if lib.0 != r.0 {
                    return Err(fail(
                        "C05/exact/first-derivative",
                        format!("d/d{} of `{text}` at {:?}: library {:?}, exact derivative {:?}", names[i], points[k], lib.0, r.0),
                        describe(),
                    ));
                }
                if lib.1 != r.1 {
                    return Err(fail(
                        "C05/exact/second-derivative",
                        format!("d/d{} d/d{} of `{text}` at {:?}: library {:?}, exact {:?}", names[j], names[i], points[k], lib.1, r.1),
                        describe(),
                    ));
                }
            }
            Ok(())
        }
    }
}

pub fn def() -> PropDef {
    PropDef {
        id: "C05",
        level_text: "generated expressions over the differentiable default operators; the library's first and second partial derivatives are compared at interior points with forward-mode (nested) dual numbers on the generated tree — with tolerance over f64, exactly over arbitrary-precision rationals for the rational sub-language; start forms flat/deep/converted/unfolded",
        assumptions: vec![
            "a point is judged only if the reference evaluation stays inside the domain with margin 0.05 and all intermediate values and derivatives are finite and below 1e6",
            "tolerance |lib - ref| <= 1e-6 (1 + max|.|) for first, 1e-5 for second derivatives over f64; none over rationals",
            "for trees containing an operator without derivative rule, Err is accepted and Ok only with the true derivative (away from kinks)",
        ],
        subs: vec![
            SubCheck {
                name: "derivative_f64",
                rule: "tape -> tree(1-8 nodes over + - * / ^ unary +/- and 18 functions, 1-3 variables) x rendering x start form x two indices x up to 6 interior points; non-trivial = derivative not constant and tree has a product, quotient, variable exponent or unary composition >=2; distinct by text+indices+start",
                kind: Kind::Tape { len: 220, quick: 15_000, thorough: 1_000_000, f: derivative_f64 },
            },
            SubCheck {
                name: "derivative_f64_large",
                rule: "as derivative_f64 with up to 14 nodes",
                kind: Kind::Tape { len: 300, quick: 3_000, thorough: 200_000, f: derivative_f64_large },
            },
            SubCheck {
                name: "derivative_exact",
                rule: "tape -> tree over + - * / and integer powers (incl. 0, 1, negative) x two indices x up to 4 rational points; FlatEx/DeepEx over exact rationals; equality without tolerance; non-trivial = product, quotient or power present",
                kind: Kind::Tape { len: 220, quick: 15_000, thorough: 800_000, f: derivative_exact },
            },
            SubCheck {
                name: "scaled_monomials",
                rule: "10 closed-form families (c*x*x, x/c, c*x^3, x*c*y, c/x, sin(c*x), (c+x)^2, ...) x 6 constants from 1e-50 to 1e17 (spelled without exponent) x 3 points; first and second derivative through FlatEx, unfolded FlatEx, partial_nth, DeepEx, partial_iter; relative comparison 1e-11 with the closed form",
                kind: Kind::Indexed { n: n_mono, f: scaled_monomials, exhaustive: true },
            },
            SubCheck {
                name: "nondifferentiable",
                rule: "as derivative_f64 with 25% of the operators from abs signum floor ceil round trunc fract cbrt atan2 min max: Err whenever such an operator is applied to a variable-dependent operand (w.r.t. every variable), otherwise Err or the true derivative",
                kind: Kind::Tape { len: 220, quick: 10_000, thorough: 500_000, f: nondifferentiable },
            },
        ],
    }
}
