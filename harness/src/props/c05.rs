//! C05 — A partial derivative evaluates to the mathematical derivative.
use super::PropDef;
use crate::calc::*;
use crate::q::{QMatcher, QOps, Q};
use crate::runner::*;
use crate::tape::Tape;
use crate::tcase::ex_msg;
use exmex::prelude::*;
use exmex::DeepEx;
use serde_json::json;

pub type FQ = FlatEx<Q, QOps, QMatcher>;
pub type DQ<'a> = DeepEx<'a, Q, QOps, QMatcher>;

/// sorted names of the variables used and, per sorted position, the index into VAR_NAMES
pub fn sorted_vars(t: &CT) -> (Vec<String>, Vec<usize>) {
    let mut used = vec![];
    ct_vars(t, &mut used);
    let mut v: Vec<(String, usize)> = used.iter().map(|i| (VAR_NAMES[*i].to_string(), *i)).collect();
    v.sort();
    (v.iter().map(|x| x.0.clone()).collect(), v.iter().map(|x| x.1).collect())
}

pub fn gen_point(t: &mut Tape, n: usize) -> Vec<f64> {
    let style = t.choose(4);
    (0..n)
        .map(|_| match style {
            0 => 0.3 + t.unit_f64() * 2.0,
            1 => 0.1 + t.unit_f64() * 0.8,
            2 => -2.0 + t.unit_f64() * 4.0,
            _ => 1.1 + t.unit_f64() * 3.0,
        })
        .collect()
}

#[derive(Clone, Copy, Debug)]
pub enum Start {
    FlatParse,
    DeepParse,
    FlatToDeep,
    DeepToFlat,
    FlatUnfolded,
}
pub const STARTS: [Start; 5] = [Start::FlatParse, Start::DeepParse, Start::FlatToDeep, Start::DeepToFlat, Start::FlatUnfolded];

/// first and second derivatives (library) evaluated at the points: Err(msg) if the library fails
/// returns per point: (f', f'') where f'' = d/dx_j d/dx_i
fn lib_derivatives(
    text: &str,
    start: Start,
    i: usize,
    j: usize,
    points: &[Vec<f64>],
) -> Result<(Vec<String>, Vec<(f64, f64)>, String), String> {
    macro_rules! go {
        ($e:expr) => {{
            let e = $e;
            let names = e.var_names().to_vec();
            let d1 = ex_msg(e.clone().partial(i))?;
            if d1.var_names() != &names[..] {
                return Err(format!("derivative lists variables {:?}, antiderivative {:?}", d1.var_names(), names));
            }
            let d2 = ex_msg(d1.clone().partial(j))?;
            let mut out = vec![];
            for p in points {
                out.push((ex_msg(d1.eval(p))?, ex_msg(d2.eval(p))?));
            }
            Ok((names, out, d1.unparse().to_string()))
        }};
    }
    match start {
        Start::FlatParse => go!(ex_msg(exmex::FlatEx::<f64>::parse(text))?),
        Start::FlatUnfolded => go!(ex_msg(exmex::FlatEx::<f64>::parse_wo_compile(text))?),
        Start::DeepParse => go!(ex_msg(DeepEx::<f64>::parse(text))?),
        Start::FlatToDeep => go!(ex_msg(ex_msg(exmex::FlatEx::<f64>::parse(text))?.to_deepex())?),
        Start::DeepToFlat => go!(ex_msg(exmex::FlatEx::<f64>::from_deepex(ex_msg(DeepEx::<f64>::parse(text))?))?),
    }
}

fn run_f64(tape: &[u32], st: &mut Stats, max_size: usize, nondiff_pct: u32) -> CaseResult {
    let mut t = Tape::new(tape);
    let cfg = CalcCfg { max_size, nvars: 1 + t.choose(3), rational_only: false, nondiff_pct, unary_pct: 30 };
    let size = 1 + t.choose(max_size);
    let tree = gen_ct(&mut t, &cfg, size);
    let (names, idxs) = sorted_vars(&tree);
    if names.is_empty() {
        st.excluded("expression without variables");
        return Ok(());
    }
    let text = render_ct(&tree, &mut t);
    let start = STARTS[t.choose(STARTS.len())];
    let i = t.choose(names.len());
    let j = t.choose(names.len());
    // candidate points; the reference decides which are in the interior of the domain
    let mut points: Vec<Vec<f64>> = vec![];
    let mut refs: Vec<(f64, f64)> = vec![];
    let mut senss: Vec<(f64, f64)> = vec![];
    let mut tries = 0;
    while points.len() < 6 && tries < 24 {
        tries += 1;
        let p = gen_point(&mut t, names.len());
        // full vector indexed by VAR_NAMES position
        let mut full: Vec<Dual<Dual<f64>>> =
            (0..VAR_NAMES.len()).map(|_| Dual { v: Dual { v: 1.0, d: 0.0 }, d: Dual { v: 0.0, d: 0.0 } }).collect();
        for (pos, vi) in idxs.iter().enumerate() {
            full[*vi] = Dual {
                v: Dual { v: p[pos], d: if pos == j { 1.0 } else { 0.0 } },
                d: Dual { v: if pos == i { 1.0 } else { 0.0 }, d: 0.0 },
            };
        }
        let mut ok = true;
        let r = eval_ct(&tree, &full, &mut ok);
        if ok && r.d.v.is_finite() && r.d.d.is_finite() {
            // conditioning of both derivatives at this point
            let mk = |q: &[f64]| -> Vec<Dual<Dual<f64>>> {
                let mut fl = full.clone();
                for (pos, vi) in idxs.iter().enumerate() {
                    fl[*vi].v.v = q[pos];
                }
                fl
            };
            let f1 = |q: &[f64]| {
                let mut o = true;
                let r = eval_ct(&tree, &mk(q), &mut o);
                o.then_some(r.d.v)
            };
            let f2 = |q: &[f64]| {
                let mut o = true;
                let r = eval_ct(&tree, &mk(q), &mut o);
                o.then_some(r.d.d)
            };
            if let (Some(s1), Some(s2)) = (sensitivity(&f1, &p), sensitivity(&f2, &p)) {
                points.push(p);
                refs.push((r.d.v, r.d.d));
                senss.push((s1, s2));
            }
        }
    }
    let has_nondiff = ct_has_any_nondiff(&tree);
    let mut facts = CtFacts::default();
    ct_facts(&tree, &mut facts);
    st.class_if(facts.product, "product of variable-dependent factors");
    st.class_if(facts.quotient, "quotient with variable-dependent divisor");
    st.class_if(facts.var_exponent, "power with variable exponent");
    st.class_if(facts.unary_chain2, "unary composition length>=2");
    st.class_if(has_nondiff, "contains an operator without derivative rule");
    st.class(&format!("start={start:?}"));
    if points.is_empty() {
        st.class("vacuous: no interior point found in 24 tries");
        // still: the library must not panic
        let r = guard(|| lib_derivatives(&text, start, i, j, &[]));
        return match r {
            Err(p) => Err(fail("C05/panic", format!("partial of `{text}` panics: {p}"), json!({"text": text, "start": format!("{start:?}")}))),
            Ok(_) => Ok(()),
        };
    }
    let nonconstant = refs.iter().any(|r| (r.0 - refs[0].0).abs() > 1e-9) || facts.product || facts.quotient || facts.var_exponent;
    if nonconstant && (facts.product || facts.quotient || facts.var_exponent || facts.unary_chain2) {
        if st.nontrivial(&format!("{text}|{i}|{j}|{start:?}")) && st.want_sample() {
            st.sample(json!({"text": text, "wrt": [names[i], names[j]], "start": format!("{start:?}"), "point": points[0], "reference": [refs[0].0, refs[0].1]}));
        }
    }
    let describe = |extra: serde_json::Value| json!({"text": text, "start": format!("{start:?}"), "wrt_first": names[i], "wrt_second": names[j], "vars": names, "detail": extra});
    match guard(|| lib_derivatives(&text, start, i, j, &points)) {
        Err(p) => Err(fail("C05/panic", format!("partial of `{text}` panics: {p}"), describe(json!(null)))),
        Ok(Err(e)) => {
            if has_nondiff {
                st.class("operator without rule: differentiation fails with an error (accepted)");
                Ok(())
            } else {
                Err(fail("C05/error-on-differentiable", format!("`{text}` is differentiable but partial fails: {e}"), describe(json!(null))))
            }
        }
        Ok(Ok((_names, vals, dtext))) => {
            if has_nondiff {
                st.class("operator without rule: Ok returned, compared with the true derivative");
            }
            for (k, (lib, r)) in vals.iter().zip(refs.iter()).enumerate() {
                if !close_cond(lib.0, r.0, 1e-6, senss[k].0) {
                    return Err(fail(
                        if has_nondiff { "C05/wrong-derivative-instead-of-error" } else { "C05/first-derivative" },
                        format!("d/d{} of `{text}` at {:?}: library {} (`{dtext}`), true derivative {}", names[i], points[k], lib.0, r.0),
                        describe(json!({"point": points[k], "library": lib.0, "reference": r.0, "derivative_text": dtext})),
                    ));
                }
                if !close_cond(lib.1, r.1, 1e-5, senss[k].1) {
                    return Err(fail(
                        if has_nondiff { "C05/wrong-derivative-instead-of-error" } else { "C05/second-derivative" },
                        format!("d/d{} d/d{} of `{text}` at {:?}: library {}, true derivative {}", names[j], names[i], points[k], lib.1, r.1),
                        describe(json!({"point": points[k], "library": lib.1, "reference": r.1})),
                    ));
                }
            }
            Ok(())
        }
    }
}

fn derivative_f64(tape: &[u32], st: &mut Stats) -> CaseResult {
    run_f64(tape, st, 8, 0)
}
fn derivative_f64_large(tape: &[u32], st: &mut Stats) -> CaseResult {
    run_f64(tape, st, 14, 0)
}
fn nondifferentiable(tape: &[u32], st: &mut Stats) -> CaseResult {
    run_f64(tape, st, 7, 25)
}

// ---------------------------------------------------------------------------------------------
// exact: rational sub-language over Q

pub const Q_POINTS: [(i64, i64); 10] = [(1, 2), (3, 1), (-2, 3), (5, 4), (2, 1), (-1, 1), (7, 3), (1, 3), (-5, 2), (1, 1)];

fn derivative_exact(tape: &[u32], st: &mut Stats) -> CaseResult {
    let mut t = Tape::new(tape);
    let cfg = CalcCfg { max_size: 9, nvars: 1 + t.choose(3), rational_only: true, nondiff_pct: 0, unary_pct: 12 };
    let size = 1 + t.choose(cfg.max_size);
    let tree = gen_ct(&mut t, &cfg, size);
    let (names, idxs) = sorted_vars(&tree);
    if names.is_empty() {
        st.excluded("expression without variables");
        return Ok(());
    }
    let text = render_ct(&tree, &mut t);
    let i = t.choose(names.len());
    let j = t.choose(names.len());
    let deep = t.chance(50);
    let mut points: Vec<Vec<Q>> = vec![];
    let mut refs: Vec<(Q, Q)> = vec![];
    for _ in 0..8 {
        let p: Vec<Q> = (0..names.len()).map(|_| { let (n, d) = *t.pick(&Q_POINTS); Q::ratio(n, d) }).collect();
        let mut full: Vec<Dual<Dual<Q>>> = (0..VAR_NAMES.len())
            .map(|_| Dual { v: Dual { v: Q::int(1), d: Q::int(0) }, d: Dual { v: Q::int(0), d: Q::int(0) } })
            .collect();
        for (pos, vi) in idxs.iter().enumerate() {
            full[*vi] = Dual {
                v: Dual { v: p[pos].clone(), d: Q::int((pos == j) as i64) },
                d: Dual { v: Q::int((pos == i) as i64), d: Q::int(0) },
            };
        }
        let mut ok = true;
        let r = eval_ct(&tree, &full, &mut ok);
        // exact arithmetic: only definedness matters (no margins needed except the ones eval_ct
        // applies uniformly; they merely discard points)
        if ok && r.defined() {
            points.push(p);
            refs.push((r.d.v.clone(), r.d.d.clone()));
        }
        if points.len() >= 4 {
            break;
        }
    }
    if points.is_empty() {
        st.class("vacuous: no defined point");
        return Ok(());
    }
    let mut facts = CtFacts::default();
    ct_facts(&tree, &mut facts);
    st.class_if(facts.product, "product of variable-dependent factors");
    st.class_if(facts.quotient, "quotient with variable-dependent divisor");
    st.class_if(facts.power, "integer power");
    if (facts.product || facts.quotient || facts.power) && st.nontrivial(&format!("{text}|{i}|{j}|{deep}")) && st.want_sample() {
        st.sample(json!({"text": text, "wrt": [names[i], names[j]], "point": format!("{:?}", points[0]), "reference": format!("{:?}", refs[0])}));
    }
    let describe = || json!({"text": text, "wrt_first": names[i], "wrt_second": names[j], "deep": deep});
    let res = guard(|| -> Result<Vec<(Q, Q)>, String> {
        let mut out = vec![];
        if deep {
            let e = ex_msg(DQ::parse(&text))?;
            let d1 = ex_msg(e.partial(i))?;
            let d2 = ex_msg(d1.clone().partial(j))?;
            for p in &points {
                out.push((ex_msg(d1.eval(p))?, ex_msg(d2.eval(p))?));
            }
        } else {
            let e = ex_msg(FQ::parse(&text))?;
            let d1 = ex_msg(e.partial(i))?;
            let d2 = ex_msg(d1.clone().partial(j))?;
            for p in &points {
                out.push((ex_msg(d1.eval(p))?, ex_msg(d2.eval(p))?));
            }
        }
        Ok(out)
    });
    match res {
        Err(p) => Err(fail("C05/exact/panic", format!("partial of `{text}` over exact rationals panics: {p}"), describe())),
        Ok(Err(e)) => Err(fail("C05/exact/error", format!("partial of `{text}` fails: {e}"), describe())),
        Ok(Ok(vals)) => {
            for (k, (lib, r)) in vals.iter().zip(refs.iter()).enumerate() {
                if lib.0 != r.0 {
                    return Err(fail(
                        "C05/exact/first-derivative",
                        format!("d/d{} of `{text}` at {:?}: library {:?}, exact derivative {:?}", names[i], points[k], lib.0, r.0),
                        describe(),
                    ));
                }
                if lib.1 != r.1 {
                    return Err(fail(
                        "C05/exact/second-derivative",
                        format!("d/d{} d/d{} of `{text}` at {:?}: library {:?}, exact {:?}", names[j], names[i], points[k], lib.1, r.1),
                        describe(),
                    ));
                }
            }
            Ok(())
        }
    }
}

pub fn def() -> PropDef {
    PropDef {
        id: "C05",
        level_text: "generated expressions over the differentiable default operators; the library's first and second partial derivatives are compared at interior points with forward-mode (nested) dual numbers on the generated tree — with tolerance over f64, exactly over arbitrary-precision rationals for the rational sub-language; start forms flat/deep/converted/unfolded",
        assumptions: vec![
            "a point is judged only if the reference evaluation stays inside the domain with margin 0.05 and all intermediate values and derivatives are finite and below 1e6",
            "tolerance |lib - ref| <= 1e-6 (1 + max|.|) for first, 1e-5 for second derivatives over f64; none over rationals",
            "for trees containing an operator without derivative rule, Err is accepted and Ok only with the true derivative (away from kinks)",
        ],
        subs: vec![
            SubCheck {
                name: "derivative_f64",
                rule: "tape -> tree(1-8 nodes over + - * / ^ unary +/- and 18 functions, 1-3 variables) x rendering x start form x two indices x up to 6 interior points; non-trivial = derivative not constant and tree has a product, quotient, variable exponent or unary composition >=2; distinct by text+indices+start",
                kind: Kind::Tape { len: 220, quick: 15_000, thorough: 1_000_000, f: derivative_f64 },
            },
            SubCheck {
                name: "derivative_f64_large",
                rule: "as derivative_f64 with up to 14 nodes",
                kind: Kind::Tape { len: 300, quick: 3_000, thorough: 200_000, f: derivative_f64_large },
            },
            SubCheck {
                name: "derivative_exact",
                rule: "tape -> tree over + - * / and integer powers (incl. 0, 1, negative) x two indices x up to 4 rational points; FlatEx/DeepEx over exact rationals; equality without tolerance; non-trivial = product, quotient or power present",
                kind: Kind::Tape { len: 220, quick: 15_000, thorough: 800_000, f: derivative_exact },
            },
            SubCheck {
                name: "nondifferentiable",
                rule: "as derivative_f64 with 25% of the operators from abs signum floor ceil round trunc fract cbrt atan2 min max: Err, or the true derivative",
                kind: Kind::Tape { len: 220, quick: 10_000, thorough: 500_000, f: nondifferentiable },
            },
        ],
    }
}
