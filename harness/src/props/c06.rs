//! C06 — No input text can crash the library.
use super::PropDef;
use crate::fixed::*;
use crate::gen::*;
use crate::runner::*;
use crate::tape::{hash_str, Tape};
use exmex::prelude::*;
use exmex::{DeepEx, FloatOpsFactory, NumberMatcher, Val, ValMatcher, ValOpsFactory};
use serde_json::{json, Value};
use smallvec::SmallVec;
use std::time::Instant;

type DV<'a> = DeepEx<'a, Val<i32, f64>, ValOpsFactory<i32, f64>, ValMatcher>;

pub struct Seen {
    pub accepted: bool,
    pub past_tokenizer: bool,
}

fn tokenizer_error(msg: &str) -> bool {
    msg.contains("don't know how to parse")
        || msg.contains("could not find operator for comma")
        || msg.contains("second comma")
        || msg.contains("original error type")
        || msg.contains("could not parse")
        || msg.contains("empty string")
}

pub fn paren_depth(text: &str) -> usize {
    let (mut d, mut m) = (0usize, 0usize);
    let mut in_brace = false;
    for c in text.chars() {
        match c {
            '{' => in_brace = true,
            '}' => in_brace = false,
            '(' if !in_brace => {
                d += 1;
                m = m.max(d)
            }
            ')' if !in_brace => d = d.saturating_sub(1),
            _ => {}
        }
    }
    m
}
pub fn rough_token_count(text: &str) -> usize {
    // every non-blank maximal run of identifier characters or single other character
    let mut n = 0;
    let mut in_ident = false;
    for c in text.chars() {
        if c == ' ' {
            in_ident = false;
        } else if is_ident_char(c) || c == '.' {
            if !in_ident {
                n += 1;
            }
            in_ident = true;
        } else {
            n += 1;
            in_ident = false;
        }
    }
    n
}

fn val_values(n: usize, variant: usize) -> Vec<Val<i32, f64>> {
    let pool: [Val<i32, f64>; 10] = [
        Val::Float(1.5),
        Val::Int(3),
        Val::Int(i32::MIN),
        Val::Int(-1),
        Val::Float(f64::NAN),
        Val::Float(f64::INFINITY),
        Val::Array(SmallVec::new()),
        Val::Array(SmallVec::from_slice(&[1.0, 2.0, 3.0])),
        Val::None,
        Val::Bool(true),
    ];
    (0..n).map(|i| pool[(variant + i * (1 + variant / 10)) % pool.len()].clone()).collect()
}

/// Calls every entry point on `text` and every follow-up on what they return.
pub fn exercise(text: &str) -> Result<Seen, Fail> {
    let mut seen = Seen { accepted: false, past_tokenizer: false };
    let depth = paren_depth(text);
    let ntok = rough_token_count(text);
    // differentiation cost grows quickly with the number of operators (seconds beyond ~45 powers):
    // the follow-up is bounded so that a slow derivative is never mistaken for a hang
    let may_differentiate = depth <= 16 && ntok <= 40;
    let case = || json!({"text": text});
    macro_rules! entry {
        ($name:literal, $body:expr) => {{
            match guard(|| $body) {
                Err(p) => {
                    return Err(fail(
                        &format!("C06/{}/panic", $name),
                        format!("{} panics on `{}`: {p}", $name, text.escape_debug().to_string().chars().take(300).collect::<String>()),
                        case(),
                    ))
                }
                Ok(Ok(())) => seen.accepted = true,
                Ok(Err(msg)) => {
                    if !tokenizer_error(&msg) {
                        seen.past_tokenizer = true;
                    }
                }
            }
        }};
    }
    fn m<T>(r: exmex::ExResult<T>) -> Result<T, String> {
        r.map_err(|e| e.msg().to_string())
    }
    // 1-2: flat f64, folded and unfolded
    for compile in [true, false] {
        entry!("FlatEx<f64>", {
            let e = if compile { m(exmex::FlatEx::<f64>::parse(text))? } else { m(exmex::FlatEx::<f64>::parse_wo_compile(text))? };
            let n = e.var_names().len();
            let vals: Vec<f64> = (0..n).map(|i| 0.75 + i as f64).collect();
            let _ = e.eval(&vals);
            let _ = e.eval_relaxed(&vals);
            let _ = e.eval_vec(vals.clone());
            let _ = e.eval_iter(vals.clone().into_iter());
            let _ = e.eval(&[]);
            let _ = e.unparse().len();
            let _ = format!("{e}");
            let _ = e.unary_reprs();
            let _ = e.binary_reprs();
            let _ = e.operator_reprs();
            let _ = e.var_indices_ordered();
            if let Ok(d) = e.clone().to_deepex() {
                let _ = d.eval(&vals);
                let _ = d.unparse().len();
                let _ = d.operator_reprs();
                if let Ok(f2) = exmex::FlatEx::<f64>::from_deepex(d) {
                    let _ = f2.eval(&vals);
                }
            }
            if may_differentiate {
                for i in 0..n.min(3) {
                    if let Ok(d) = e.clone().partial(i) {
                        let _ = d.eval(&vals);
                        let _ = d.unparse().len();
                    }
                }
                let _ = e.clone().partial(n);
                let _ = e.clone().partial_nth(0, 2).map(|d| d.eval(&vals));
            }
            Ok::<(), String>(())
        });
    }
    // 3: deep f64
    entry!("DeepEx<f64>", {
        let d = m(DeepEx::<f64>::parse(text))?;
        let n = d.var_names().len();
        let vals: Vec<f64> = (0..n).map(|i| 0.75 + i as f64).collect();
        let _ = d.eval(&vals);
        let _ = d.eval_relaxed(&vals);
        let _ = d.unparse().len();
        let _ = d.unary_reprs();
        let _ = d.binary_reprs();
        let _ = d.operator_reprs();
        if let Ok(f) = exmex::FlatEx::<f64>::from_deepex(d.clone()) {
            let _ = f.eval(&vals);
            let _ = f.operator_reprs();
        }
        if may_differentiate {
            for i in 0..n.min(3) {
                if let Ok(dd) = d.clone().partial(i) {
                    let _ = dd.eval(&vals);
                    // the chains below differentiate products and powers of derivatives again: bounded to
                    // short texts and short derivatives (the cost grows quickly with the size)
                    if text.len() > 40 || dd.unparse().len() > 120 {
                        continue;
                    }
                    // chains on derived expressions (derivatives are often constants that still list
                    // variables): helper methods, overloaded operators, substitution, differentiation again
                    let _ = dd.clone().sin().and_then(|x| x.partial(i)).map(|x| x.eval(&vals));
                    let _ = (-dd.clone()).and_then(|x| -x).and_then(|x| x.partial(i)).map(|x| x.eval(&vals));
                    let _ = dd.clone().operate_unary("ln").and_then(|x| x.partial_nth(i, 2)).map(|x| x.eval(&vals));
                    let _ = (dd.clone() * d.clone()).and_then(|x| x + dd.clone()).and_then(|x| x.pow(dd.clone())).map(|x| x.eval(&vals));
                    let _ = d.clone().subs(&mut |_name: &str| Some(dd.clone())).and_then(|x| x.partial(i)).map(|x| x.eval(&vals));
                    let _ = (dd.clone() / dd.clone()).and_then(|x| x.partial(i)).map(|x| (x.eval(&vals), x.unparse().len()));
                }
            }
        }
        Ok::<(), String>(())
    });
    // 4-5: eval_str, f32
    entry!("eval_str<f64>", m(exmex::eval_str::<f64>(text)).map(|_| ()));
    entry!("parse<f32>", {
        let e = m(exmex::parse::<f32>(text))?;
        let vals: Vec<f32> = (0..e.var_names().len()).map(|i| 0.5 + i as f32).collect();
        let _ = e.eval(&vals);
        Ok::<(), String>(())
    });
    // 6-7: value type
    entry!("parse_val<i32,f64>", {
        let e = m(exmex::parse_val::<i32, f64>(text))?;
        let n = e.var_names().len();
        let variants = if n == 0 { 1 } else { 6 };
        for v in 0..variants {
            let vals = val_values(n, v * 3 + (hash_str(text) % 7) as usize);
            let _ = e.eval(&vals);
            let _ = e.eval_vec(vals.clone());
        }
        let _ = e.unparse().len();
        let _ = e.operator_reprs();
        let vals = val_values(n, 0);
        if let Ok(d) = e.clone().to_deepex() {
            let _ = d.eval(&vals);
            let _ = d.unparse().len();
            if let Ok(f2) = exmex::FlatExVal::<i32, f64>::from_deepex(d) {
                let _ = f2.eval(&vals);
            }
        }
        if may_differentiate {
            for i in 0..n.min(2) {
                if let Ok(d) = e.clone().partial(i) {
                    let _ = d.eval(&vals);
                }
            }
        }
        Ok::<(), String>(())
    });
    entry!("DeepEx<Val>", {
        let d = m(DV::parse(text))?;
        let vals = val_values(d.var_names().len(), 1);
        let _ = d.eval(&vals);
        let _ = d.unparse().len();
        Ok::<(), String>(())
    });
    entry!("parse_val<i64,f32>", {
        let e = m(exmex::parse_val::<i64, f32>(text))?;
        let n = e.var_names().len();
        let vals: Vec<Val<i64, f32>> = (0..n).map(|i| if i % 2 == 0 { Val::Int(i64::MAX - i as i64) } else { Val::Float(2.5) }).collect();
        let _ = e.eval(&vals);
        Ok::<(), String>(())
    });
    // 8: statement lines
    entry!("line_2_statement<f64>", m(exmex::statements::line_2_statement::<f64, FloatOpsFactory<f64>, NumberMatcher>(text)).map(|_| ()));
    entry!("line_2_statement_val", m(exmex::line_2_statement_val::<i32, f64>(text)).map(|_| ()));
    Ok(seen)
}

// ---------------------------------------------------------------------------------------------
// 1. bounded-exhaustive over a small token alphabet

const ALPHABET: [&str; 14] = ["(", ")", ",", "{", "}", "x", "1", ".", "+", "-", "*", "sin", "max", " "];

fn max_len(tier: Tier) -> u64 {
    tier.pick(5, 6)
}
fn n_short(tier: Tier) -> u64 {
    (1..=max_len(tier)).map(|k| 14u64.pow(k as u32)).sum()
}
fn short_string(mut i: u64) -> String {
    let mut len = 1u32;
    while i >= 14u64.pow(len) {
        i -= 14u64.pow(len);
        len += 1;
    }
    let mut s = String::new();
    for _ in 0..len {
        s.push_str(ALPHABET[(i % 14) as usize]);
        i /= 14;
    }
    s
}
fn short_strings(i: u64, st: &mut Stats) -> CaseResult {
    let text = short_string(i);
    let seen = exercise(&text)?;
    if seen.accepted {
        st.class("accepted by at least one entry point");
    }
    if seen.accepted || seen.past_tokenizer {
        st.nontrivial(&text);
        if st.want_sample() && i % 7919 == 0 {
            st.sample(json!({"text": text, "accepted": seen.accepted}));
        }
    }
    Ok(())
}

// ---------------------------------------------------------------------------------------------
// 2. token soup and mutations over the full alphabet

fn full_alphabet() -> Vec<String> {
    let mut a: Vec<String> = vec![];
    for o in float_table().iter().chain(val_table().iter()) {
        if !a.iter().any(|x| x == o.name) {
            a.push(o.name.to_string());
        }
    }
    for s in [
        "(", ")", "(", ")", ",", "{", "}", "[", "]", "x", "y", "z", "Erwin", "sin4", "α", "_a", "1", "2.5", ".5", "3.", "1e5",
        "2147483648", "99999999999999999999", "0.1.2", "{x}", "{a b}", "{}", "[1,2,3]", "[1, 2", "[]", "[1.5]", "true", "false",
        "=", "é", "😀", "\u{a0}", "ά", "\t", "\n", "\0", "x=", "0", "-", "+", "*", "/", "^", "(", ")", "1", "x", " ",
        // characters that are numeric / alphabetic / blank for Unicode but not for the documented ASCII rules
        "²", "½", "٣", "１２", "1.٥", "x²", "Ⅷ", "𝟙", "\u{2003}", "\u{3000}", "ǆ", "ß", "İ", "𝒙", "[#1, 2]", "[1, ٣]", "[ ]", "[,]", "[1,,2]",
    ] {
        a.push(s.to_string());
    }
    a
}

fn soup_text(t: &mut Tape) -> (String, &'static str, usize) {
    let alphabet = full_alphabet();
    match t.weighted(&[4, 4, 1]) {
        0 => {
            // random token sequence; occasionally long
            let n = match t.choose(10) {
                0 => 100 + t.choose(900),
                1 | 2 => 20 + t.choose(80),
                _ => 1 + t.choose(15),
            };
            let mut s = String::new();
            for _ in 0..n {
                s.push_str(t.pick(&alphabet[..]).as_str());
                match t.choose(4) {
                    0 => {}
                    _ => s.push(' '),
                }
            }
            (s, "random tokens", n)
        }
        1 => {
            // a rendered well-formed expression over the float or the value table with token mutations
            let use_val = t.chance(50);
            let table = if use_val { val_table() } else { float_table() };
            let pool = VarPool { names: vec!["x".into(), "y".into(), "a b".into()], bare_ok: vec![true, true, false] };
            let lits: &'static [&'static str] = if use_val { &["1", "2", "0.5", "true", "[1,2,3]", "2147483647"] } else { &LITERALS };
            let tree = gen_tree(t, &table, 3, &TreeCfg { max_operands: 10, lits, ..TreeCfg::default() });
            let rcfg = RenderCfg { call_pct: 30, sym_call_pct: 10, ..RenderCfg::default() };
            let toks = {
                let mut r = Renderer::new(&table, &pool, &rcfg, t);
                r.render_tokens(&tree)
            };
            let mut toks: Vec<String> = toks.into_iter().map(|x| x.text).collect();
            let k = t.choose(5);
            for _ in 0..k {
                if toks.is_empty() {
                    break;
                }
                let pos = t.choose(toks.len());
                match t.choose(5) {
                    0 => {
                        toks.remove(pos);
                    }
                    1 => toks.insert(pos, t.pick(&alphabet).clone()),
                    2 => {
                        let x = toks[pos].clone();
                        toks.insert(pos, x);
                    }
                    3 => {
                        let other = t.choose(toks.len());
                        toks.swap(pos, other);
                    }
                    _ => toks[pos] = t.pick(&alphabet).clone(),
                }
            }
            let n = toks.len();
            let mut s = String::new();
            for tk in &toks {
                s.push_str(tk);
                if t.chance(70) {
                    s.push(' ');
                }
            }
            (s, "mutated well-formed expression", n)
        }
        _ => {
            let (s, n) = nest_text(t, 40);
            (s, "nest (depth <= 40)", n)
        }
    }
}

/// nested shapes: (((…))), sin(sin(…)), 1+(x*(1+(x*…))), max(x,max(x,…)), unary chains
pub fn nest_text(t: &mut Tape, max_depth: usize) -> (String, usize) {
    let d = 1 + t.choose(max_depth);
    let core = ["x", "1", "x+1", "", "y*2", "{a b}"][t.choose(6)];
    let (s, n) = match t.choose(7) {
        0 => (format!("{}{}{}", "(".repeat(d), core, ")".repeat(d)), 2 * d + 1),
        1 => (format!("{}{}{}", "sin(".repeat(d), core, ")".repeat(d)), 3 * d + 1),
        2 => (format!("{}{}{}", "1+(x*(".repeat(d / 2 + 1), core, "))".repeat(d / 2 + 1)), 6 * (d / 2 + 1) + 1),
        3 => (format!("{}{}{}", "max(x,".repeat(d), core, ")".repeat(d)), 5 * d + 1),
        4 => (format!("{}{}", "-".repeat(d * 5), core), 5 * d + 1),
        5 => (format!("{}{}{}", "-(".repeat(d), core, ")".repeat(d)), 3 * d + 1),
        _ => (format!("{}{}{}", "(x if x>1 else ".repeat(d), core, ")".repeat(d)), 8 * d + 1),
    };
    // sometimes unbalance it
    let s = match t.choose(6) {
        0 => format!("{s})"),
        1 => format!("({s}"),
        _ => s,
    };
    (s, n)
}

fn soup(tape: &[u32], st: &mut Stats) -> CaseResult {
    let mut t = Tape::new(tape);
    let (text, origin, ntok) = soup_text(&mut t);
    st.class(origin);
    if ntok > 1000 || paren_depth(&text) > 100 {
        st.excluded("more than 1000 tokens or nesting deeper than 100 (outside the property)");
        return Ok(());
    }
    st.class_if(ntok > 100, "more than 100 tokens");
    let seen = exercise(&text)?;
    st.class_if(seen.accepted, "accepted by at least one entry point");
    st.class_if(!seen.accepted && seen.past_tokenizer, "rejected after tokenisation");
    if seen.accepted || seen.past_tokenizer {
        if st.nontrivial(&text) && st.want_sample() {
            st.sample(json!({"text": text.chars().take(200).collect::<String>(), "origin": origin, "accepted": seen.accepted}));
        }
    }
    Ok(())
}

// ---------------------------------------------------------------------------------------------
// 3. deep nests in a child process with the default 8 MiB stack

const NEST_STACK: usize = 8 << 20;

/// `vcheck c06-worker <seed> <cases> <status file>`: runs nest cases on an 8 MiB thread; writes the
/// text of the case it is about to run to the status file, so that a stack overflow (abort of the
/// process) can be attributed to an input by the parent.
pub fn worker_main(seed: u64, cases: u64, status: &str) -> i32 {
    let status = status.to_string();
    let h = std::thread::Builder::new()
        .stack_size(NEST_STACK)
        .spawn(move || -> i32 {
            let mut stats = (0u64, 0u64); // cases, accepted
            for c in 0..cases {
                let words: Vec<u32> = (0..16).map(|k| (crate::tape::mix(seed, c * 16 + k) >> 16) as u32).collect();
                let mut t = Tape::new(&words);
                let (text, _n) = nest_text(&mut t, 100);
                if paren_depth(&text) > 100 {
                    continue;
                }
                let _ = std::fs::write(&status, format!("RUNNING\n{text}"));
                match exercise_parsing_only(&text) {
                    Ok(acc) => {
                        stats.0 += 1;
                        if acc {
                            stats.1 += 1;
                        }
                    }
                    Err(msg) => {
                        let _ = std::fs::write(&status, format!("FAILED\n{text}\n{msg}"));
                        return 1;
                    }
                }
            }
            let _ = std::fs::write(&status, format!("DONE\n{} {}", stats.0, stats.1));
            0
        })
        .unwrap();
    h.join().unwrap_or(3)
}

/// parsing entry points + evaluation, conversion, printing; no differentiation (the stack clause
/// of the property is about parsing)
fn exercise_parsing_only(text: &str) -> Result<bool, String> {
    let mut accepted = false;
    let r = guard(|| {
        let mut acc = false;
        for compile in [true, false] {
            let e = if compile { exmex::FlatEx::<f64>::parse(text) } else { exmex::FlatEx::<f64>::parse_wo_compile(text) };
            if let Ok(e) = e {
                acc = true;
                let vals: Vec<f64> = (0..e.var_names().len()).map(|i| 1.5 + i as f64).collect();
                let _ = e.eval(&vals);
                let _ = e.operator_reprs();
                if let Ok(d) = e.to_deepex() {
                    let _ = d.eval(&vals);
                    let _ = d.unparse().len();
                    let _ = exmex::FlatEx::<f64>::from_deepex(d).map(|f| f.eval(&vals));
                }
            }
        }
        if let Ok(d) = DeepEx::<f64>::parse(text) {
            acc = true;
            let vals: Vec<f64> = (0..d.var_names().len()).map(|i| 1.5 + i as f64).collect();
            let _ = d.eval(&vals);
            let _ = d.operator_reprs();
            let _ = exmex::FlatEx::<f64>::from_deepex(d).map(|f| f.eval(&vals));
        }
        let _ = exmex::eval_str::<f64>(text);
        if let Ok(e) = exmex::parse_val::<i32, f64>(text) {
            acc = true;
            let vals = val_values(e.var_names().len(), 0);
            let _ = e.eval(&vals);
            let _ = e.to_deepex().map(|d| d.eval(&vals));
        }
        let _ = exmex::line_2_statement_val::<i32, f64>(text);
        acc
    });
    match r {
        Ok(a) => {
            accepted |= a;
            Ok(accepted)
        }
        Err(p) => Err(format!("panic: {p}")),
    }
}

fn run_nests(tier: Tier, seed: u64) -> SubReport {
    let start = Instant::now();
    let cases = tier.pick(3_000, 200_000);
    let procs = n_threads().min(8) as u64;
    let exe = std::env::current_exe().expect("current exe");
    let mut stats = Stats::default();
    let mut failures = vec![];
    let mut children = vec![];
    for p in 0..procs {
        let status = format!("{}/.target/c06-nest-{}-{p}.status", out_dir(), std::process::id());
        let child = std::process::Command::new(&exe)
            .arg("c06-worker")
            .arg(format!("{}", crate::tape::mix(seed, 1000 + p)))
            .arg(format!("{}", cases / procs))
            .arg(&status)
            .stdout(std::process::Stdio::null())
            .stderr(std::process::Stdio::null())
            .spawn();
        match child {
            Ok(c) => children.push((c, status, crate::tape::mix(seed, 1000 + p))),
            Err(e) => {
                eprintln!("[C06] cannot spawn worker: {e} (inconclusive)");
                std::process::exit(2);
            }
        }
    }
    for (mut c, status, wseed) in children {
        let st = c.wait();
        let content = std::fs::read_to_string(&status).unwrap_or_default();
        let _ = std::fs::remove_file(&status);
        let mut lines = content.splitn(2, '\n');
        let head = lines.next().unwrap_or("");
        let rest = lines.next().unwrap_or("");
        match head {
            "DONE" => {
                let mut it = rest.split(' ');
                let n: u64 = it.next().and_then(|x| x.parse().ok()).unwrap_or(0);
                let acc: u64 = it.next().and_then(|x| x.trim().parse().ok()).unwrap_or(0);
                stats.evals += n;
                *stats.classes.entry("accepted by at least one entry point".into()).or_insert(0) += acc;
                // distinct non-trivial: accepted nests (texts are a function of (seed, index))
                for k in 0..acc {
                    stats.nontrivial.insert(crate::tape::mix(wseed, k));
                }
            }
            "FAILED" => {
                let text = rest.lines().next().unwrap_or("").to_string();
                failures.push((
                    fail("C06/nest/panic", format!("nested text panics: {}", rest.lines().nth(1).unwrap_or("")), json!({"text": text})),
                    json!({"text": text}),
                ));
            }
            "RUNNING" => {
                let text = rest.to_string();
                failures.push((
                    fail(
                        "C06/nest/process-died",
                        format!("worker process died ({st:?}) while handling a text nested {} deep with the default 8 MiB stack: `{}`", paren_depth(&text), text.chars().take(120).collect::<String>()),
                        json!({"text": text}),
                    ),
                    json!({"text": text}),
                ));
            }
            _ => {
                eprintln!("[C06] worker ended without status ({st:?}); inconclusive");
                std::process::exit(2);
            }
        }
    }
    stats.samples.push(json!({"text": "sin(sin(sin(… 100 levels …x…)))", "note": "nest shapes: parentheses, functions, 1+(x*(…)), max(x,max(x,…)), sign chains, -(…), piecewise"}));
    SubReport { name: String::new(), rule: String::new(), stats, exhaustive: false, failures, wall_s: start.elapsed().as_secs_f64() }
}

fn replay_nest(desc: &Value) -> CaseResult {
    let text = desc.get("text").and_then(|x| x.as_str()).unwrap_or("");
    // in a child with the 8 MiB stack
    let exe = std::env::current_exe().map_err(|e| fail("C06/replay", e.to_string(), json!({})))?;
    let file = format!("{}/.target/c06-replay-{}.txt", out_dir(), std::process::id());
    std::fs::write(&file, text).map_err(|e| fail("C06/replay", e.to_string(), json!({})))?;
    let out = std::process::Command::new(exe).arg("c06-text").arg(&file).output();
    let _ = std::fs::remove_file(&file);
    match out {
        Ok(o) if o.status.success() => Ok(()),
        Ok(o) => Err(fail("C06/nest/process-died", format!("child ended with {:?}: {}", o.status, String::from_utf8_lossy(&o.stdout)), json!({"text": text}))),
        Err(_) => {
            // the executable is not available (replaced while running): use the in-process oracle
            let text = text.to_string();
            std::thread::Builder::new()
                .stack_size(NEST_STACK)
                .spawn(move || exercise(&text).map(|_| ()))
                .map_err(|e| fail("C06/replay", e.to_string(), json!({})))?
                .join()
                .unwrap_or_else(|_| Err(fail("C06/replay-thread-died", "thread died".into(), json!({}))))
        }
    }
}

/// `vcheck c06-text <file>`: exercises one text on an 8 MiB stack; exit 0 if everything returned
pub fn text_main(path: &str) -> i32 {
    let text = match std::fs::read(path) {
        Ok(b) => match String::from_utf8(b) {
            Ok(s) => s,
            Err(_) => {
                println!("not UTF-8: outside the property");
                return 0;
            }
        },
        Err(e) => {
            eprintln!("cannot read {path}: {e}");
            return 2;
        }
    };
    let h = std::thread::Builder::new()
        .stack_size(NEST_STACK)
        .spawn(move || {
            if rough_token_count(&text) > 1000 || paren_depth(&text) > 100 {
                println!("more than 1000 tokens or nesting > 100: outside the property");
                return 0;
            }
            match exercise(&text) {
                Ok(_) => 0,
                Err(f) => {
                    println!("{}: {}", f.signature, f.msg);
                    1
                }
            }
        })
        .unwrap();
    h.join().unwrap_or(3)
}

// ---------------------------------------------------------------------------------------------
// 4. replay of the saved fuzz corpus (quick tier) — the campaign itself runs in the thorough tier

fn corpus_files() -> Vec<std::path::PathBuf> {
    let mut v = vec![];
    for dir in [format!("{VERIF_DIR}/corpus/totality"), format!("{VERIF_DIR}/corpus/crashes")] {
        if let Ok(rd) = std::fs::read_dir(&dir) {
            for e in rd.flatten() {
                if e.path().is_file() {
                    v.push(e.path());
                }
            }
        }
    }
    v.sort();
    v
}
fn n_corpus(_: Tier) -> u64 {
    corpus_files().len().max(1) as u64
}
fn corpus_replay(i: u64, st: &mut Stats) -> CaseResult {
    let files = corpus_files();
    let Some(path) = files.get(i as usize) else {
        st.nontrivial("empty");
        return Ok(());
    };
    let Ok(bytes) = std::fs::read(path) else { return Ok(()) };
    let Ok(text) = String::from_utf8(bytes) else {
        st.excluded("corpus file is not UTF-8");
        return Ok(());
    };
    if rough_token_count(&text) > 1000 || paren_depth(&text) > 100 {
        st.excluded("more than 1000 tokens or nesting deeper than 100");
        return Ok(());
    }
    let seen = exercise(&text).map_err(|mut f| {
        f.case = json!({"file": path.display().to_string(), "text": text});
        f
    })?;
    if seen.accepted || seen.past_tokenizer {
        st.nontrivial(&text);
        if st.want_sample() {
            st.sample(json!({"file": path.file_name().map(|x| x.to_string_lossy().to_string()), "text": text.chars().take(120).collect::<String>()}));
        }
    }
    Ok(())
}

fn run_fuzz_totality(tier: Tier, seed: u64) -> SubReport {
    use crate::fuzzdrv::*;
    if tier == Tier::Quick {
        return skipped("coverage-guided campaign runs in the thorough tier only (its saved corpus is replayed by corpus_replay)");
    }
    let c = Campaign {
        target: "totality",
        seed_corpus: Some("/verif/corpus/totality"),
        runs_per_job: 400_000,
        jobs: n_threads().min(8),
        max_len: 2048,
        dict: Some("/verif/corpus/exmex.dict"),
    };
    run_campaign(&c, seed, &|path: &std::path::Path| {
        // slow units are not failures; crashes, timeouts and out-of-memory reports are re-checked
        let fname = path.file_name()?.to_string_lossy().to_string();
        if fname.starts_with("slow-unit") {
            return None;
        }
        let text = String::from_utf8(std::fs::read(path).ok()?).ok()?;
        match replay_nest(&json!({"text": text})) {
            Ok(()) => None,
            Err(fl) => Some((fl, json!({"text": text}))),
        }
    })
}

pub fn def() -> PropDef {
    PropDef {
        id: "C06",
        level_text: "validity predicate 'every call returns, no panic, no hang, no death of the process' over (1) all strings of up to 5/6 tokens of a 14-token alphabet (exhaustive), (2) token soup and mutated well-formed expressions over the full alphabet up to 1000 tokens, (3) nests up to 100 levels in child processes with the default 8 MiB stack, (4) the saved corpus of the coverage-guided fuzz target (the campaign itself runs in the thorough tier); every entry point and every follow-up (evaluate, convert, print, list operators, differentiate) is called",
        assumptions: vec![
            "texts with more than 1000 tokens or nesting deeper than 100 are outside the property (counted)",
            "differentiation follow-ups are issued for nesting <= 16 and <= 40 tokens only (the stack clause of the property is about parsing; differentiating long power chains takes seconds and must not be mistaken for a hang)",
            "a case that does not return within 90 s is a hang",
            "worker threads of the in-process sub-checks have 64 MiB stacks; the nest sub-check uses child processes with 8 MiB (the Linux main-thread default)",
        ],
        subs: vec![
            SubCheck {
                name: "short_strings",
                rule: "all concatenations of 1-5 (quick) / 1-6 (thorough) tokens of ( ) , { } x 1 . + - * sin max blank; non-trivial = accepted by some entry point or rejected after tokenisation; distinct by text",
                kind: Kind::Indexed { n: n_short, f: short_strings, exhaustive: true },
            },
            SubCheck {
                name: "soup",
                rule: "tape -> random token sequence (1-1000 tokens of all default/value operators, identifiers, numbers incl. 1e5 and 2147483648, braces, brackets, array literals, unicode, control characters) | rendered well-formed float/value expression with 0-4 token mutations | nest; non-trivial as above",
                kind: Kind::Tape { len: 1200, quick: 40_000, thorough: 3_000_000, f: soup },
            },
            SubCheck {
                name: "nests",
                rule: "child processes (8 MiB stack): (((…))), sin(sin(…)), 1+(x*(1+(x*…))), max(x,max(x,…)), sign chains, -(…), nested piecewise, depth 1-100, balanced or off by one parenthesis; parsing entry points + evaluation, conversion, printing; non-trivial = accepted",
                kind: Kind::Custom { run: run_nests, replay: replay_nest },
            },
            SubCheck {
                name: "corpus_replay",
                rule: "every file of /verif/corpus/totality and /verif/corpus/crashes (seeds from the repository's tests and documentation, inputs found by the fuzz campaigns) through the same oracle",
                kind: Kind::Indexed { n: n_corpus, f: corpus_replay, exhaustive: false },
            },
            SubCheck {
                name: "fuzz_totality",
                rule: "thorough tier: libFuzzer campaign (8 jobs x 400k runs, dictionary of operator names, seeds from the repository's tests and docs on half of the jobs, empty corpus on the others, -len_control=0, no sanitizer because ASan inflates stack frames) on the target that calls every entry point; artifacts (crashes, timeouts) are re-checked in a child process with the plain oracle and an 8 MiB stack",
                kind: Kind::Custom { run: run_fuzz_totality, replay: replay_nest },
            },
        ],
    }
}
