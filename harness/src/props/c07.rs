//! C07 — Malformed expressions are reported as errors, never evaluated.
use super::PropDef;
use crate::fixed::*;
use crate::gen::*;
use crate::runner::*;
use crate::tape::Tape;
use crate::tcase::*;
use crate::term::{describe_table, set_table, OpSpec};
use exmex::prelude::*;
use exmex::DeepEx;
use serde_json::json;

#[derive(Clone, Copy, Debug, PartialEq, Eq)]
enum TableKind {
    Dyn,
    Float,
    Val,
}

/// neither number, operator, variable (documented regex `[a-zA-Zα-ωΑ-Ω_]+[a-zA-Zα-ωΑ-Ω_0-9]*`) nor
/// bracket; includes the code points directly outside the Latin and Greek ranges of that regex
const ILLEGAL: [&str; 22] = [
    "#", "\\", "\t", "\n", "$", "?", "3.4.", "\u{7}", "`", "ά", "ή", "ΐ", "Ϊ", "ΰ", "ϊ", "é", "д", "漢", "٣", "😀",
    "\u{a0}", "\u{3000}",
];
const BAD_ARRAYS: [&str; 12] =
    ["[#1, 2, 3]", "[1, $2]", "[$4, 5]", "[1 2]", "[1,,2]", "[,1]", "[1,2", "[a1,2]", "[1;2]", "[1,2,]", "[1, ?]", "[\\1]"];
const VAL_LITS: [&str; 7] = ["1", "2", "0.5", "10", "true", "[1,2,3]", "7"];

struct Damaged {
    text: String,
    kind: &'static str,
    interior: bool,
}

fn damage(t: &mut Tape, toks: &[Tok], table: &[OpSpec], tk: TableKind) -> Damaged {
    let mut toks: Vec<Tok> = toks.to_vec();
    let n = toks.len();
    let kind_idx = if tk == TableKind::Val { t.choose(7) } else { t.choose(6) };
    let mut interior = false;
    // illegal characters may also be glued to their neighbours without a space
    let mut glue_illegal = false;
    // an appended `.` operator (value table) may be glued to a literal: `1.` is the literal `1`
    // followed by the operator, by the documented literal pattern `[0-9]+(\.[0-9]+)?`
    let mut glue_last = false;
    let kind: &'static str = match kind_idx {
        0 => {
            // delete one parenthesis
            let parens: Vec<usize> =
                (0..n).filter(|i| matches!(toks[*i].kind, TokKind::Open | TokKind::Close)).collect();
            if parens.is_empty() {
                // no parenthesis to delete: insert one instead
                let pos = t.choose(n + 1);
                toks.insert(pos, if t.chance(50) { Tok::open() } else { Tok::close() });
                interior = pos > 0 && pos < n;
                "insert parenthesis"
            } else {
                let p = *t.pick(&parens);
                interior = p > 0 && p + 1 < n;
                toks.remove(p);
                "delete parenthesis"
            }
        }
        1 => {
            let pos = t.choose(n + 1);
            toks.insert(pos, if t.chance(50) { Tok::open() } else { Tok::close() });
            interior = pos > 0 && pos < n;
            "insert parenthesis"
        }
        2 => {
            let bins: Vec<&OpSpec> = table.iter().filter(|o| o.bin.is_some()).collect();
            let o = t.pick(&bins);
            toks.push(Tok::op(o.name));
            if tk != TableKind::Dyn && o.name == "." && t.chance(60) {
                glue_last = true;
            }
            "append binary operator"
        }
        3 => {
            // extra operand directly beside an existing operand
            let operands: Vec<usize> = (0..n).filter(|i| toks[*i].kind == TokKind::Operand).collect();
            let p = *t.pick(&operands);
            let after = t.chance(50);
            let pos = if after { p + 1 } else { p };
            interior = pos > 0 && pos < n;
            match t.choose(3) {
                0 => toks.insert(pos, Tok::operand(if tk == TableKind::Val { "3" } else { "7" })),
                1 => toks.insert(pos, Tok::braced("extra")),
                _ => {
                    toks.insert(pos, Tok::close());
                    toks.insert(pos, Tok::operand("1"));
                    toks.insert(pos, Tok::open());
                }
            }
            "extra operand beside an operand"
        }
        4 => {
            let pos = t.choose(n + 1);
            interior = pos > 0 && pos < n;
            let mut ill = *t.pick(&ILLEGAL);
            if tk == TableKind::Val && ill == "3.4." {
                // `.` is an operator of the value table
                ill = "#";
            }
            let mut tok = Tok::operand(ill);
            tok.braced = false;
            toks.insert(pos, tok);
            if t.chance(40) {
                glue_illegal = true;
            }
            "illegal character sequence"
        }
        6 => {
            // an operand replaced by a corrupted array literal (illegal character or missing
            // element inside the brackets)
            let operands: Vec<usize> = (0..n).filter(|i| toks[*i].kind == TokKind::Operand).collect();
            let p = *t.pick(&operands);
            interior = p > 0 && p + 1 < n;
            let bad = *t.pick(&BAD_ARRAYS);
            let mut tok = Tok::operand(bad);
            tok.braced = true; // opaque: never glued to its neighbours
            toks[p] = tok;
            "corrupted array literal"
        }
        _ => {
            // fixed degenerate forms
            let forms: [&[&str]; 6] = [&[], &[" "], &["   "], &["OP"], &["OP", "OP2"], &["UN"]];
            let f = forms[t.choose(forms.len())];
            let bins: Vec<&OpSpec> = table.iter().filter(|o| o.bin.is_some()).collect();
            let uns: Vec<&OpSpec> = table.iter().filter(|o| o.unary).collect();
            toks = f
                .iter()
                .map(|s| match *s {
                    "OP" => Tok::op(bins[0].name),
                    "OP2" => Tok::op(bins[bins.len() - 1].name),
                    "UN" => Tok::op(uns.first().map(|o| o.name).unwrap_or(bins[0].name)),
                    x => Tok { text: x.to_string(), kind: TokKind::Op, braced: false },
                })
                .collect();
            "empty, blank or only operators"
        }
    };
    // join so that every token stays a token of its own: always a separating space around the damage
    let mut text = String::new();
    for (i, tk_) in toks.iter().enumerate() {
        if i > 0 {
            let a = &toks[i - 1];
            let ill = ILLEGAL.contains(&a.text.as_str()) || ILLEGAL.contains(&tk_.text.as_str());
            if glue_last && i + 1 == toks.len() {
                // no space
            } else if ill && glue_illegal && a.text != "3.4." && tk_.text != "3.4." {
                // glued: also an illegal alphanumeric character directly behind or in front of an
                // identifier (`xé`, `٣x`) - the documented identifier pattern does not contain it
            } else if must_space(a, tk_, table)
                || (ill && !glue_illegal)
                || (ill && (a.text == "3.4." || tk_.text == "3.4."))
                || (a.kind == TokKind::Operand && tk_.kind == TokKind::Operand)
                || t.chance(25)
            {
                text.push(' ');
            }
        }
        text.push_str(&tk_.text);
    }
    Damaged { text, kind, interior }
}

fn check_rejected(text: &str, tk: TableKind, describe: &dyn Fn() -> serde_json::Value, kind: &str) -> CaseResult {
    let mk = |entry: &str, what: &str, msg: String| fail(&format!("C07/{kind}/{entry}/{what}"), msg, describe());
    let entries: Vec<(&str, Box<dyn Fn() -> bool + '_>)> = match tk {
        TableKind::Dyn => vec![
            ("FlatEx::parse", Box::new(|| F::parse(text).is_ok())),
            ("FlatEx::parse_wo_compile", Box::new(|| F::parse_wo_compile(text).is_ok())),
            ("DeepEx::parse", Box::new(|| D::parse(text).is_ok())),
        ],
        TableKind::Float => vec![
            ("FlatEx<f64>::parse", Box::new(|| exmex::FlatEx::<f64>::parse(text).is_ok())),
            ("FlatEx<f64>::parse_wo_compile", Box::new(|| exmex::FlatEx::<f64>::parse_wo_compile(text).is_ok())),
            ("DeepEx<f64>::parse", Box::new(|| DeepEx::<f64>::parse(text).is_ok())),
            ("exmex::parse<f32>", Box::new(|| exmex::parse::<f32>(text).is_ok())),
            ("eval_str<f64>", Box::new(|| exmex::eval_str::<f64>(text).is_ok())),
            (
                "line_2_statement<f64>",
                Box::new(|| exmex::statements::line_2_statement::<f64, exmex::FloatOpsFactory<f64>, exmex::NumberMatcher>(text).is_ok()),
            ),
        ],
        TableKind::Val => vec![
            ("parse_val<i32,f64>", Box::new(|| exmex::parse_val::<i32, f64>(text).is_ok())),
            (
                "DeepEx<Val>::parse",
                Box::new(|| DeepEx::<exmex::Val<i32, f64>, exmex::ValOpsFactory<i32, f64>, exmex::ValMatcher>::parse(text).is_ok()),
            ),
            ("line_2_statement_val", Box::new(|| exmex::line_2_statement_val::<i32, f64>(text).is_ok())),
        ],
    };
    for (entry, f) in entries {
        // a statement line with '=' is `lhs = expression`: only its right-hand side is an expression,
        // so the damage kinds of the property do not apply to the line as a whole
        if entry.starts_with("line_2_statement") && text.contains('=') {
            continue;
        }
        match guard(|| f()) {
            Err(p) => return Err(mk(entry, "panic", format!("{entry} panics on malformed text `{}`: {p}", text.escape_debug()))),
            Ok(true) => return Err(mk(entry, "accepted", format!("{entry} accepts malformed text `{}` ({kind})", text.escape_debug()))),
            Ok(false) => {}
        }
    }
    Ok(())
}

fn run(tape: &[u32], st: &mut Stats, tk: TableKind) -> CaseResult {
    let mut t = Tape::new(tape);
    let (table, pool, tree) = match tk {
        TableKind::Dyn => {
            let table = gen_table(&mut t, &TableCfg::default());
            let pool = gen_var_pool(&mut t, &table, 4, 10);
            let tree = gen_tree(&mut t, &table, pool.names.len(), &TreeCfg { max_operands: 7, ..TreeCfg::default() });
            (table, pool, tree)
        }
        TableKind::Float => {
            let table = float_table();
            let pool = VarPool { names: vec!["x".into(), "y".into(), "zeta".into(), "a b".into()], bare_ok: vec![true, true, true, false] };
            let tree = gen_tree(&mut t, &table, 4, &TreeCfg { max_operands: 7, ..TreeCfg::default() });
            (table, pool, tree)
        }
        TableKind::Val => {
            let table = val_table();
            let pool = VarPool { names: vec!["x".into(), "y".into(), "zeta".into()], bare_ok: vec![true, true, true] };
            let tree = gen_tree(&mut t, &table, 3, &TreeCfg { max_operands: 7, lits: &VAL_LITS, ..TreeCfg::default() });
            (table, pool, tree)
        }
    };
    if tk == TableKind::Dyn {
        set_table(&table);
    }
    let rcfg = RenderCfg { call_pct: 30, sym_call_pct: 10, ..RenderCfg::default() };
    let toks = {
        let mut r = Renderer::new(&table, &pool, &rcfg, &mut t);
        r.render_tokens(&tree)
    };
    let dmg = damage(&mut t, &toks, &table, tk);
    st.class(dmg.kind);
    let nbin = n_bin(&tree);
    if nbin >= 2 && dmg.interior {
        if st.nontrivial(&format!("{}|{}", dmg.text, if tk == TableKind::Dyn { describe_table(&table) } else { String::new() })) && st.want_sample() {
            st.sample(json!({"damaged": dmg.text, "damage": dmg.kind, "source": tree_to_string(&tree, &table, &pool)}));
        }
    }
    let describe = || {
        json!({"damaged": dmg.text, "damage": dmg.kind, "source": tree_to_string(&tree, &table, &pool),
               "table": if tk == TableKind::Dyn { describe_table(&table) } else { format!("{tk:?} (built-in)") }})
    };
    check_rejected(&dmg.text, tk, &describe, dmg.kind)
}

fn damage_dyn(tape: &[u32], st: &mut Stats) -> CaseResult {
    run(tape, st, TableKind::Dyn)
}
fn damage_float(tape: &[u32], st: &mut Stats) -> CaseResult {
    run(tape, st, TableKind::Float)
}
fn damage_val(tape: &[u32], st: &mut Stats) -> CaseResult {
    run(tape, st, TableKind::Val)
}

pub fn def() -> PropDef {
    PropDef {
        id: "C07",
        level_text: "well-formed generated expression x one token-level damage of the listed kinds; every parser entry point must return Err (no Ok, no panic); the malformedness holds by construction of the damage",
        assumptions: vec![
            "damage is applied at token boundaries outside braces and separated by spaces, so it cannot merge with a neighbour into another well-formed token",
            "illegal character sequences are chosen outside every operator name of the table (`3.4.` is not used with the value table, whose `.` is an operator)",
        ],
        subs: vec![
            SubCheck {
                name: "damage_dyn",
                rule: "tape -> generated table x tree(1-7 operands, 30% call form) x damage (delete/insert one parenthesis | append a binary operator | extra operand (literal, braced variable, parenthesised literal) directly beside an operand | illegal character sequence | empty/blank/only operators); FlatEx::parse, parse_wo_compile, DeepEx::parse; non-trivial = source has >=2 binary operators and the damage is interior; distinct by damaged text+table",
                kind: Kind::Tape { len: 400, quick: 60_000, thorough: 3_000_000, f: damage_dyn },
            },
            SubCheck {
                name: "damage_float",
                rule: "same damages on expressions over the default float table; FlatEx<f64>, DeepEx<f64>, parse<f32>, eval_str",
                kind: Kind::Tape { len: 400, quick: 30_000, thorough: 1_000_000, f: damage_float },
            },
            SubCheck {
                name: "damage_val",
                rule: "same damages on expressions over the value table; parse_val, DeepEx<Val>",
                kind: Kind::Tape { len: 400, quick: 15_000, thorough: 500_000, f: damage_val },
            },
        ],
    }
}
