//! C08 — Function-call notation `op(a, b)` means `((a) op (b))` at any nesting.
use super::PropDef;
use crate::fixed::*;
use crate::gen::*;
use crate::runner::*;
use crate::tape::Tape;
use crate::tcase::*;
use crate::term::{describe_table, Term};
use exmex::prelude::*;
use exmex::{DeepEx, MakeOperators, Val};
use serde_json::json;

fn cfg() -> CaseCfg {
    CaseCfg {
        table: TableCfg { alpha_pct: 70, max_bin: 6, ..TableCfg::default() },
        tree: TreeCfg { max_operands: 10, lit_pct: 35, unary_pct: 15, shape_weights: [4, 2, 4], ..TreeCfg::default() },
        render: RenderCfg { call_pct: 65, sym_call_pct: 20, redundant_paren_pct: 10, ..RenderCfg::default() },
        max_vars: 4,
        weird_pct: 5,
    }
}
fn cfg_deep() -> CaseCfg {
    CaseCfg {
        table: TableCfg { alpha_pct: 85, max_bin: 4, max_un: 2, ..TableCfg::default() },
        tree: TreeCfg { max_operands: 40, lit_pct: 35, unary_pct: 6, shape_weights: [2, 2, 6], ..TreeCfg::default() },
        render: RenderCfg { call_pct: 85, sym_call_pct: 30, redundant_paren_pct: 4, ..RenderCfg::default() },
        max_vars: 4,
        weird_pct: 0,
    }
}

pub fn classify_calls(info: &RenderInfo, st: &mut Stats) -> bool {
    st.class_if(info.n_calls >= 1, ">=1 call");
    st.class_if(info.n_calls >= 2, ">=2 calls");
    st.class_if(info.n_calls >= 6, ">=6 calls");
    st.class_if(info.call_in_second_arg, "call nested in second argument");
    st.class_if(info.call_in_first_arg, "call nested in first argument");
    st.class_if(info.call_in_first_arg && info.call_in_second_arg, "calls nested in both arguments");
    st.class_if(info.call_in_extra_parens, "call inside extra parentheses");
    st.class_if(info.call_under_unary, "call under a unary operator");
    st.class_if(info.call_as_infix_operand, "call as operand of an infix operator");
    st.class_if(info.sym_call, "symbolic operator in call form");
    (info.n_calls >= 2 && info.call_in_second_arg) || (info.n_calls >= 1 && (info.call_in_extra_parens || info.call_under_unary))
}

fn run(tape: &[u32], st: &mut Stats, cfg: &CaseCfg) -> CaseResult {
    let mut t = Tape::new(tape);
    let case = gen_term_case(&mut t, cfg);
    if classify_calls(&case.info, st) {
        if st.nontrivial(&format!("{}|{}", case.text, describe_table(&case.table))) && st.want_sample() {
            st.sample(case.describe());
        }
    }
    for r in [Route::Flat, Route::FlatWo, Route::Deep] {
        case.check_route("C08", r)?;
    }
    // metamorphic: the all-infix rendering ((a) op (b)) denotes the same
    let canonical = render_canonical(&case.tree, &case.table, &case.pool);
    let vf = |n: &[String]| case.vals_for(n);
    for r in [Route::Flat, Route::Deep] {
        match guard(|| denote(r, &canonical, &vf)) {
            Ok(Ok(d)) => {
                if case.norm(&d.value) != case.refv || d.names != case.names {
                    let mut c = case.describe();
                    c["canonical"] = json!(canonical);
                    return Err(fail(
                        &format!("C08/{}/canonical-differs", r.name()),
                        format!("`{canonical}` (all-infix form of `{}`) denotes {:?}, expected {:?}", case.text, case.norm(&d.value), case.refv),
                        c,
                    ));
                }
            }
            Ok(Err(e)) => {
                let mut c = case.describe();
                c["canonical"] = json!(canonical);
                return Err(fail(&format!("C08/{}/canonical-rejected", r.name()), format!("`{canonical}` rejected: {e}"), c));
            }
            Err(p) => {
                let mut c = case.describe();
                c["canonical"] = json!(canonical);
                return Err(fail(&format!("C08/{}/canonical-panic", r.name()), format!("`{canonical}` panics: {p}"), c));
            }
        }
    }
    Ok(())
}

fn call_form(tape: &[u32], st: &mut Stats) -> CaseResult {
    run(tape, st, &cfg())
}
fn call_form_deep(tape: &[u32], st: &mut Stats) -> CaseResult {
    run(tape, st, &cfg_deep())
}

/// "at any nesting": calls nested 1-170 deep (in first or second arguments) and one call or operand
/// of the text wrapped in 0-329 additional parentheses
fn call_form_nesting(tape: &[u32], st: &mut Stats) -> CaseResult {
    let mut t = Tape::new(tape);
    let cfg = CaseCfg {
        table: TableCfg { alpha_pct: 85, max_bin: 4, max_un: 2, ..TableCfg::default() },
        tree: TreeCfg { max_operands: 170, lit_pct: 35, unary_pct: 3, shape_weights: [2, 3, 5], ..TreeCfg::default() },
        render: RenderCfg { call_pct: 97, sym_call_pct: 40, redundant_paren_pct: 0, juxta_pct: 50, ..RenderCfg::default() },
        max_vars: 4,
        weird_pct: 0,
    };
    let mut case = gen_term_case(&mut t, &cfg);
    // wrap one call in extra parentheses
    let calls: Vec<usize> = (0..case.toks.len().saturating_sub(1))
        .filter(|i| case.toks[*i].kind == TokKind::Op && case.toks[*i + 1].kind == TokKind::Open && {
            // a call, not a unary operator applied to a parenthesised operand: its group contains a comma at depth 1
            let mut d = 0i32;
            let mut comma = false;
            for k in &case.toks[*i + 1..] {
                match k.kind {
                    TokKind::Open => d += 1,
                    TokKind::Close => {
                        d -= 1;
                        if d == 0 {
                            break;
                        }
                    }
                    TokKind::Comma if d == 1 => comma = true,
                    _ => {}
                }
            }
            comma
        })
        .collect();
    let extra = match t.choose(6) {
        0 => 0,
        1 => 1 + t.choose(62),
        2 => 60 + t.choose(12),
        3 | 4 => 64 + t.choose(137),
        _ => 250 + t.choose(80),
    };
    let mut wrapped_depth = 0;
    // what is wrapped: a whole call, or a single operand (plain parentheses inside an argument)
    let operands: Vec<usize> = (0..case.toks.len()).filter(|i| case.toks[*i].kind == TokKind::Operand).collect();
    let wrap_operand = !operands.is_empty() && t.chance(40);
    if (!calls.is_empty() || wrap_operand) && extra > 0 {
        let start = if wrap_operand { *t.pick(&operands) } else { *t.pick(&calls) };
        let mut d = 0i32;
        let mut end = start;
        for (k, tk) in case.toks.iter().enumerate().skip(start + 1) {
            if wrap_operand {
                break;
            }
            match tk.kind {
                TokKind::Open => d += 1,
                TokKind::Close => {
                    d -= 1;
                    if d == 0 {
                        end = k;
                        break;
                    }
                }
                _ => {}
            }
        }
        wrapped_depth = case.toks[..start].iter().fold(0i32, |a, k| match k.kind {
            TokKind::Open => a + 1,
            TokKind::Close => a - 1,
            _ => a,
        }) as usize;
        let mut toks = Vec::with_capacity(case.toks.len() + 2 * extra);
        toks.extend_from_slice(&case.toks[..start]);
        toks.extend((0..extra).map(|_| Tok::open()));
        toks.extend_from_slice(&case.toks[start..=end]);
        toks.extend((0..extra).map(|_| Tok::close()));
        toks.extend_from_slice(&case.toks[end + 1..]);
        case.text = join_tokens(&toks, &case.table, &mut t, 10);
        case.toks = toks;
    }
    let depth = case.toks.iter().fold((0usize, 0usize), |(d, m), k| match k.kind {
        TokKind::Open => (d + 1, m.max(d + 1)),
        TokKind::Close => (d.saturating_sub(1), m),
        _ => (d, m),
    }).1;
    st.class_if(calls.len() >= 20, ">=20 calls");
    st.class_if(calls.len() >= 65, ">=65 calls");
    st.class_if(depth >= 64, "parenthesis depth >= 64");
    st.class_if(depth >= 128, "parenthesis depth >= 128");
    st.class_if(depth >= 256, "parenthesis depth >= 256");
    st.class_if(calls.len() >= 130, ">=130 calls");
    st.class_if(wrap_operand && extra >= 256 && !calls.is_empty(), "an operand inside >= 256 plain parentheses, in a text with calls");
    st.class_if(extra >= 64 && !calls.is_empty() && !wrap_operand, "a call inside >= 64 extra parentheses");
    st.class_if(wrapped_depth + extra >= 64 && !calls.is_empty() && !wrap_operand, "a call starting at parenthesis depth >= 64");
    if !calls.is_empty() && depth >= 20 {
        if st.nontrivial(&format!("{}|{}", case.text, describe_table(&case.table))) && st.want_sample() {
            st.sample(case.describe());
        }
    }
    for r in [Route::Flat, Route::FlatWo, Route::Deep] {
        case.check_route("C08", r)?;
    }
    Ok(())
}

// ---------------------------------------------------------------------------------------------
// the built-in tables: exact arithmetic only, so that any grouping gives bit-identical results

const FLOAT_NAMES: [&str; 7] = ["+", "-", "*", "min", "max", "atan2", "abs"];
const FLOAT_LITS: [&str; 8] = ["0.5", "1", "2", "3", "0.25", "1.5", "4", "8"];

fn gen_exact_tree(t: &mut Tape, table: &[crate::term::OpSpec], nvars: usize, n: usize, allow: &[&str]) -> Tree {
    let idx = |name: &str| table.iter().position(|o| o.name == name).unwrap();
    if n <= 1 {
        let leaf = if nvars > 0 && t.chance(55) { Tree::Var(t.choose(nvars)) } else { Tree::Num(t.pick(&FLOAT_LITS).to_string()) };
        if t.chance(12) {
            Tree::Un(idx("-"), Box::new(leaf))
        } else {
            leaf
        }
    } else {
        let l = match t.choose(3) {
            0 => 1,
            _ => 1 + t.choose(n - 1),
        };
        let name = *t.pick(allow);
        let tr = Tree::Bin(
            idx(name),
            Box::new(gen_exact_tree(t, table, nvars, l, allow)),
            Box::new(gen_exact_tree(t, table, nvars, n - l, allow)),
        );
        if t.chance(10) {
            Tree::Un(idx("-"), Box::new(tr))
        } else {
            tr
        }
    }
}

fn call_form_float(tape: &[u32], st: &mut Stats) -> CaseResult {
    let mut t = Tape::new(tape);
    let table = restrict(&float_table(), &FLOAT_NAMES);
    let names = ["x", "y", "z"];
    let pool = VarPool { names: names.iter().map(|s| s.to_string()).collect(), bare_ok: vec![true; 3] };
    let n = 1 + t.choose(9);
    let exact = ["+", "-", "*", "min", "max"];
    // atan2 only at the root (its result is not exactly representable)
    let tree = if t.chance(25) && n >= 2 {
        let l = 1 + t.choose(n - 1);
        let i = table.iter().position(|o| o.name == "atan2").unwrap();
        Tree::Bin(i, Box::new(gen_exact_tree(&mut t, &table, 3, l, &exact)), Box::new(gen_exact_tree(&mut t, &table, 3, n - l, &exact)))
    } else {
        gen_exact_tree(&mut t, &table, 3, n, &exact)
    };
    let rcfg = RenderCfg { call_pct: 70, sym_call_pct: 25, redundant_paren_pct: 8, ..RenderCfg::default() };
    let (text, _toks, info) = render(&tree, &table, &pool, &rcfg, &mut t);
    let vals_all = [[0.5f64, 2.0, -3.0], [4.0, -0.25, 1.5]][t.choose(2)];
    let mut used = std::collections::BTreeSet::new();
    vars_used(&tree, &mut used);
    let vals: Vec<f64> = used.iter().map(|i| vals_all[*i]).collect();
    let ops = exmex::FloatOpsFactory::<f64>::make();
    let reference = eval_with_ops(&tree, &table, &ops, &vals_all);
    if classify_calls(&info, st) && st.nontrivial(&text) && st.want_sample() {
        st.sample(json!({"text": text, "values": vals, "expected": reference}));
    }
    let text: &str = &text;
    let same = |a: f64, b: f64| (a.is_nan() && b.is_nan()) || a == b;
    let routes: Vec<(&str, Box<dyn Fn() -> Result<f64, String> + '_>)> = vec![
        ("FlatEx<f64>::parse", Box::new(|| ex_msg(ex_msg(exmex::FlatEx::<f64>::parse(text))?.eval(&vals)))),
        ("FlatEx<f64>::parse_wo_compile", Box::new(|| ex_msg(ex_msg(exmex::FlatEx::<f64>::parse_wo_compile(text))?.eval(&vals)))),
        ("DeepEx<f64>::parse", Box::new(|| ex_msg(ex_msg(DeepEx::<f64>::parse(text))?.eval(&vals)))),
    ];
    for (what, f) in routes {
        let c = || json!({"text": text, "values": vals, "expected": reference, "tree": tree_to_string(&tree, &table, &pool)});
        match guard(|| f()) {
            Err(p) => return Err(fail(&format!("C08/float/{what}/panic"), format!("`{text}` panics: {p}"), c())),
            Ok(Err(e)) => return Err(fail(&format!("C08/float/{what}/rejected"), format!("call-form text `{text}` rejected: {e}"), c())),
            Ok(Ok(v)) => {
                if !same(v, reference) {
                    return Err(fail(&format!("C08/float/{what}/wrong-value"), format!("`{text}` = {v}, ((a) op (b)) semantics give {reference}"), c()));
                }
            }
        }
    }
    Ok(())
}

fn call_form_val(tape: &[u32], st: &mut Stats) -> CaseResult {
    let mut t = Tape::new(tape);
    let table = restrict(&val_table(), &["+", "-", "*", "min", "max", "abs"]);
    let names = ["x", "y", "z"];
    let pool = VarPool { names: names.iter().map(|s| s.to_string()).collect(), bare_ok: vec![true; 3] };
    let n = 1 + t.choose(8);
    // integer literals only: Val integer arithmetic far from overflow is exact and associative
    let mut tree = gen_exact_tree(&mut t, &table, 3, n, &["+", "-", "*", "min", "max"]);
    fn intify(tr: &mut Tree) {
        match tr {
            Tree::Num(s) => *s = format!("{}", (s.len() * 3 + s.bytes().map(|b| b as usize).sum::<usize>()) % 7),
            Tree::Un(_, a) => intify(a),
            Tree::Bin(_, a, b) => {
                intify(a);
                intify(b)
            }
            _ => {}
        }
    }
    intify(&mut tree);
    let rcfg = RenderCfg { call_pct: 70, sym_call_pct: 25, redundant_paren_pct: 8, ..RenderCfg::default() };
    let (text, _toks, info) = render(&tree, &table, &pool, &rcfg, &mut t);
    let vals_all: [Val<i32, f64>; 3] = [Val::Int(2), Val::Int(-3), Val::Int(5)];
    let mut used = std::collections::BTreeSet::new();
    vars_used(&tree, &mut used);
    let vals: Vec<Val<i32, f64>> = used.iter().map(|i| vals_all[*i].clone()).collect();
    let ops = exmex::ValOpsFactory::<i32, f64>::make();
    let reference = eval_with_ops(&tree, &table, &ops, &vals_all);
    if classify_calls(&info, st) && st.nontrivial(&text) && st.want_sample() {
        st.sample(json!({"text": text, "expected": format!("{reference:?}")}));
    }
    let text: &str = &text;
    let c = || json!({"text": text, "expected": format!("{reference:?}"), "tree": tree_to_string(&tree, &table, &pool)});
    match guard(|| -> Result<Val<i32, f64>, String> { ex_msg(ex_msg(exmex::parse_val::<i32, f64>(text))?.eval(&vals)) }) {
        Err(p) => Err(fail("C08/val/panic", format!("`{text}` panics: {p}"), c())),
        Ok(Err(e)) => Err(fail("C08/val/rejected", format!("call-form text `{text}` rejected: {e}"), c())),
        Ok(Ok(v)) => {
            let same = match (&v, &reference) {
                (Val::Int(a), Val::Int(b)) => a == b,
                (Val::Error(_), Val::Error(_)) => true,
                _ => false,
            };
            if same {
                Ok(())
            } else {
                Err(fail("C08/val/wrong-value", format!("`{text}` = {v:?}, ((a) op (b)) semantics give {reference:?}"), c()))
            }
        }
    }
}

pub fn def() -> PropDef {
    let _ = Term::Poison;
    PropDef {
        id: "C08",
        level_text: "trees in which binary operators are rendered in call form at every position; all three parsers must accept the text and denote the generated tree (symbolically over the term algebra; bit-exactly for exact float/integer arithmetic over the built-in tables); the all-infix rendering is evaluated too",
        assumptions: vec![
            "call form is generated for alphabetic and symbolic binary operators (documentation: all binary operators)",
            "float/value sub-checks use exactly representable operands and + - * min max only, so regrouping cannot change a bit",
        ],
        subs: vec![
            SubCheck {
                name: "call_form",
                rule: "tape -> table(70% alphabetic binary operators) x tree(1-10 operands) x rendering(call form 65% alphabetic / 20% symbolic); non-trivial = (>=2 calls, one nested in a second argument) or a call inside extra parentheses / under a unary operator; distinct by text+table",
                kind: Kind::Tape { len: 450, quick: 50_000, thorough: 2_000_000, f: call_form },
            },
            SubCheck {
                name: "call_form_deep",
                rule: "as call_form with 1-40 operands, right-deep shapes, 85% calls: nesting of calls in second arguments to depth > 12",
                kind: Kind::Tape { len: 1200, quick: 8_000, thorough: 400_000, f: call_form_deep },
            },
            SubCheck {
                name: "call_form_nesting",
                rule: "table(85% alphabetic) x tree(1-170 operands; random, left-deep and right-deep shapes) rendered with 97% calls, one call or one operand of the text wrapped in 0, 1-62, 60-71, 64-200 or 250-329 additional parentheses; non-trivial = a call and parenthesis depth >= 20; distinct by text+table",
                kind: Kind::Tape { len: 3500, quick: 1_500, thorough: 100_000, f: call_form_nesting },
            },
            SubCheck {
                name: "call_form_float",
                rule: "default float table (+ - * min max, atan2 at the root, unary -), exactly representable operands, bit-exact comparison with the tree evaluated by the table's own functions",
                kind: Kind::Tape { len: 300, quick: 20_000, thorough: 1_000_000, f: call_form_float },
            },
            SubCheck {
                name: "call_form_val",
                rule: "value table via parse_val (+ - * min max on small integers)",
                kind: Kind::Tape { len: 300, quick: 15_000, thorough: 600_000, f: call_form_val },
            },
        ],
    }
}
