//! C09 — Differentiation bookkeeping: variables, indices, order and repetition.
use super::c05::{gen_point, sorted_vars, DQ, FQ, Q_POINTS};
use super::PropDef;
use crate::calc::*;
use crate::q::Q;
use crate::runner::*;
use crate::tape::Tape;
use crate::tcase::ex_msg;
use exmex::prelude::*;
use exmex::{DeepEx, MissingOpMode};
use serde_json::json;

type D3<T> = Dual<Dual<Dual<T>>>;

fn seed3<T: Num>(x: T, pos: usize, seq: &[usize]) -> D3<T> {
    let one = || T::cst(1.0, "1");
    let zero = || T::cst(0.0, "0");
    let s = |k: usize| -> T {
        if seq.get(k) == Some(&pos) {
            one()
        } else {
            zero()
        }
    };
    // innermost derivative slot <-> first index of the sequence
    Dual {
        v: Dual { v: Dual { v: x, d: s(0) }, d: Dual { v: s(1), d: zero() } },
        d: Dual { v: Dual { v: s(2), d: zero() }, d: Dual { v: zero(), d: zero() } },
    }
}
fn const3<T: Num>(x: T) -> D3<T> {
    seed3(x, usize::MAX, &[])
}
/// derivative of order seq.len() (<= 3) of the tree at the point, by nested dual numbers
fn ref_derivative<T: Num + Bounded>(tree: &CT, idxs: &[usize], point: &[T], seq: &[usize]) -> Option<T> {
    let mut full: Vec<D3<T>> = (0..VAR_NAMES.len()).map(|_| const3(T::cst(1.0, "1"))).collect();
    for (pos, vi) in idxs.iter().enumerate() {
        full[*vi] = seed3(point[pos].clone(), pos, seq);
    }
    let mut ok = true;
    let r = eval_ct(tree, &full, &mut ok);
    if !ok || !r.defined() {
        return None;
    }
    Some(match seq.len() {
        0 => r.v.v.v,
        1 => r.v.v.d,
        2 => r.v.d.d,
        _ => r.d.d.d,
    })
}

fn gen_seq(t: &mut Tape, n: usize, max_len: usize, allow_oor: bool) -> Vec<usize> {
    // lengths 2 and 3 are the interesting ones
    let w: Vec<u32> = (0..=max_len).map(|l| [1u32, 2, 5, 4, 2][l.min(4)]).collect();
    let len = t.weighted(&w);
    (0..len).map(|_| if allow_oor && t.chance(20) { n + t.choose(2) } else { t.choose(n) }).collect()
}

macro_rules! paths {
    ($e:expr, $seq:expr, $points:expr) => {{
        // several library routes to the derivative along `seq`; each evaluated at the points
        let e = $e;
        let seq: &[usize] = $seq;
        let names = e.var_names().to_vec();
        let mut out: Vec<(&'static str, Vec<_>, Vec<String>)> = vec![];
        // sequential partial
        let mut cur = e.clone();
        for i in seq {
            cur = ex_msg(cur.partial(*i))?;
        }
        out.push(("sequential partial", $points.iter().map(|p| cur.eval(p).map_err(|e| e.msg().to_string())).collect(), cur.var_names().to_vec()));
        let it = ex_msg(e.clone().partial_iter(seq.iter().copied()))?;
        out.push(("partial_iter", $points.iter().map(|p| it.eval(p).map_err(|e| e.msg().to_string())).collect(), it.var_names().to_vec()));
        let itr = ex_msg(e.clone().partial_iter_relaxed(seq.iter().copied(), MissingOpMode::Error))?;
        out.push(("partial_iter_relaxed", $points.iter().map(|p| itr.eval(p).map_err(|e| e.msg().to_string())).collect(), itr.var_names().to_vec()));
        if !seq.is_empty() && seq.iter().all(|i| *i == seq[0]) {
            let nth = ex_msg(e.clone().partial_nth(seq[0], seq.len()))?;
            out.push(("partial_nth", $points.iter().map(|p| nth.eval(p).map_err(|e| e.msg().to_string())).collect(), nth.var_names().to_vec()));
            let nthr = ex_msg(e.clone().partial_nth_relaxed(seq[0], seq.len(), MissingOpMode::Error))?;
            out.push(("partial_nth_relaxed", $points.iter().map(|p| nthr.eval(p).map_err(|e| e.msg().to_string())).collect(), nthr.var_names().to_vec()));
        }
        if seq.is_empty() {
            let nth0 = ex_msg(e.clone().partial_nth(0, 0))?;
            out.push(("partial_nth(0, 0)", $points.iter().map(|p| nth0.eval(p).map_err(|e| e.msg().to_string())).collect(), nth0.var_names().to_vec()));
        }
        // reversed order (mixed partials agree in either order)
        let mut rev = e.clone();
        for i in seq.iter().rev() {
            rev = ex_msg(rev.partial(*i))?;
        }
        out.push(("reversed order", $points.iter().map(|p| rev.eval(p).map_err(|e| e.msg().to_string())).collect(), rev.var_names().to_vec()));
        Ok::<_, String>((names, out))
    }};
}

fn relations_f64(tape: &[u32], st: &mut Stats) -> CaseResult {
    let mut t = Tape::new(tape);
    let cfg = CalcCfg { max_size: 7, nvars: [2usize, 3, 2, 1, 4][t.choose(5)], rational_only: false, nondiff_pct: 0, unary_pct: 25 };
    let size = 2 + t.choose(cfg.max_size - 1);
    let tree = gen_ct(&mut t, &cfg, size);
    let (names, idxs) = sorted_vars(&tree);
    if names.is_empty() {
        st.excluded("expression without variables");
        return Ok(());
    }
    let text = render_ct(&tree, &mut t);
    let n = names.len();
    let seq = gen_seq(&mut t, n, 3, false);
    let deep = t.chance(50);
    // interior points w.r.t. the derivative of that order
    let mut points: Vec<Vec<f64>> = vec![];
    let mut refs: Vec<f64> = vec![];
    let mut senss: Vec<f64> = vec![];
    let mut tries = 0;
    while points.len() < 6 && tries < 20 {
        tries += 1;
        let p = gen_point(&mut t, n);
        if let Some(r) = ref_derivative(&tree, &idxs, &p, &seq) {
            if r.is_finite() && r.abs() < 1e6 {
                let f = |q: &[f64]| ref_derivative(&tree, &idxs, q, &seq);
                if let Some(sens) = sensitivity(&f, &p) {
                    points.push(p);
                    refs.push(r);
                    senss.push(sens);
                }
            }
        }
    }
    let two_distinct = seq.len() >= 2 && seq.iter().any(|i| *i != seq[0]);
    st.class(&format!("history length {}", seq.len()));
    st.class_if(two_distinct, "history with two different indices");
    if points.is_empty() {
        st.class("vacuous: no interior point");
    }
    let describe = || json!({"text": text, "indices": seq, "vars": names, "deep": deep});
    if two_distinct && !points.is_empty() && st.nontrivial(&format!("{text}|{seq:?}|{deep}")) && st.want_sample() {
        st.sample(json!({"text": text, "indices": seq, "point": points[0], "reference": refs[0]}));
    }
    let res = guard(|| -> Result<_, String> {
        if deep {
            paths!(ex_msg(DeepEx::<f64>::parse(&text))?, &seq, points)
        } else {
            paths!(ex_msg(exmex::FlatEx::<f64>::parse(&text))?, &seq, points)
        }
    });
    match res {
        Err(p) => Err(fail("C09/panic", format!("differentiating `{text}` along {seq:?} panics: {p}"), describe())),
        Ok(Err(e)) => {
            if points.is_empty() {
                // e.g. (0^(-x))^0: the library refuses 0^0 and the reference has no interior point either
                st.class("differentiation refused where the reference has no interior point (not judged)");
                Ok(())
            } else {
                Err(fail("C09/error", format!("differentiating `{text}` along valid indices {seq:?} fails: {e}"), describe()))
            }
        }
        Ok(Ok((anames, routes))) => {
            for (what, vals, dnames) in &routes {
                if dnames != &anames {
                    return Err(fail(
                        &format!("C09/{what}/var-names"),
                        format!("{what} of `{text}` along {seq:?}: variables {dnames:?}, antiderivative has {anames:?}"),
                        describe(),
                    ));
                }
                for (k, v) in vals.iter().enumerate() {
                    match v {
                        Err(e) => {
                            return Err(fail(&format!("C09/{what}/eval-error"), format!("{what} of `{text}` along {seq:?} cannot be evaluated with the antiderivative's slice: {e}"), describe()))
                        }
                        Ok(x) => {
                            let tol = if seq.len() <= 1 { 1e-6 } else { 1e-5 };
                            if !close_cond(*x, refs[k], tol, senss[k]) {
                                return Err(fail(
                                    &format!("C09/{what}/value"),
                                    format!("{what} of `{text}` along {seq:?} at {:?}: {x}, derivative of that order is {}", points[k], refs[k]),
                                    describe(),
                                ));
                            }
                        }
                    }
                }
            }
            Ok(())
        }
    }
}

fn relations_exact(tape: &[u32], st: &mut Stats) -> CaseResult {
    let mut t = Tape::new(tape);
    let cfg = CalcCfg { max_size: 8, nvars: [2usize, 3, 2, 1, 4][t.choose(5)], rational_only: true, nondiff_pct: 0, unary_pct: 12 };
    let size = 2 + t.choose(cfg.max_size - 1);
    let tree = gen_ct(&mut t, &cfg, size);
    let (names, idxs) = sorted_vars(&tree);
    if names.is_empty() {
        st.excluded("expression without variables");
        return Ok(());
    }
    let text = render_ct(&tree, &mut t);
    let n = names.len();
    let seq = gen_seq(&mut t, n, 3, false);
    let deep = t.chance(50);
    let mut points: Vec<Vec<Q>> = vec![];
    let mut refs: Vec<Q> = vec![];
    for _ in 0..8 {
        let p: Vec<Q> = (0..n).map(|_| { let (a, b) = *t.pick(&Q_POINTS); Q::ratio(a, b) }).collect();
        if let Some(r) = ref_derivative(&tree, &idxs, &p, &seq) {
            points.push(p);
            refs.push(r);
        }
        if points.len() >= 4 {
            break;
        }
    }
    let two_distinct = seq.len() >= 2 && seq.iter().any(|i| *i != seq[0]);
    st.class(&format!("history length {}", seq.len()));
    st.class_if(two_distinct, "history with two different indices");
    // does a variable vanish from the derivative? (its reference derivative w.r.t. that variable is 0 everywhere sampled)
    let describe = || json!({"text": text, "indices": seq, "vars": names, "deep": deep});
    if (two_distinct || seq.len() >= 2) && !points.is_empty() && st.nontrivial(&format!("{text}|{seq:?}|{deep}")) && st.want_sample() {
        st.sample(json!({"text": text, "indices": seq, "point": format!("{:?}", points[0]), "reference": format!("{:?}", refs[0])}));
    }
    let res = guard(|| -> Result<_, String> {
        if deep {
            paths!(ex_msg(DQ::parse(&text))?, &seq, points)
        } else {
            paths!(ex_msg(FQ::parse(&text))?, &seq, points)
        }
    });
    match res {
        Err(p) => Err(fail("C09/exact/panic", format!("differentiating `{text}` along {seq:?} panics: {p}"), describe())),
        Ok(Err(e)) => {
            if points.is_empty() {
                st.class("differentiation refused where the reference has no defined point (not judged)");
                Ok(())
            } else {
                Err(fail("C09/exact/error", format!("differentiating `{text}` along valid indices {seq:?} fails: {e}"), describe()))
            }
        }
        Ok(Ok((anames, routes))) => {
            for (what, vals, dnames) in &routes {
                if dnames != &anames {
                    return Err(fail(
                        &format!("C09/exact/{what}/var-names"),
                        format!("{what} of `{text}` along {seq:?}: variables {dnames:?}, antiderivative has {anames:?}"),
                        describe(),
                    ));
                }
                for (k, v) in vals.iter().enumerate() {
                    match v {
                        Err(e) => return Err(fail(&format!("C09/exact/{what}/eval-error"), format!("{what} of `{text}`: {e}"), describe())),
                        Ok(x) => {
                            if x != &refs[k] {
                                return Err(fail(
                                    &format!("C09/exact/{what}/value"),
                                    format!("{what} of `{text}` along {seq:?} at {:?}: {x:?}, exact derivative of that order is {:?}", points[k], refs[k]),
                                    describe(),
                                ));
                            }
                        }
                    }
                }
            }
            Ok(())
        }
    }
}

/// an index >= number of variables anywhere in a non-empty history is an error
fn out_of_range(tape: &[u32], st: &mut Stats) -> CaseResult {
    let mut t = Tape::new(tape);
    let cfg = CalcCfg { max_size: 6, nvars: 1 + t.choose(4), rational_only: t.chance(50), nondiff_pct: 0, unary_pct: 20 };
    let size = 1 + t.choose(cfg.max_size);
    let tree = gen_ct(&mut t, &cfg, size);
    let (names, _) = sorted_vars(&tree);
    let text = render_ct(&tree, &mut t);
    let n = names.len();
    let len = 1 + t.choose(4);
    let bad_pos = t.choose(len);
    let bad = n + t.choose(3);
    let seq: Vec<usize> = (0..len).map(|k| if k == bad_pos { bad } else if n > 0 { t.choose(n) } else { bad }).collect();
    st.class(&format!("history length {len}"));
    st.class_if(bad_pos == len - 1 && len > 1, "out-of-range entry is the last one, all earlier ones valid");
    st.class_if(n == 0, "expression without variables");
    if st.nontrivial(&format!("{text}|{seq:?}")) && st.want_sample() {
        st.sample(json!({"text": text, "indices": seq, "variables": n}));
    }
    let describe = || json!({"text": text, "indices": seq, "vars": names});
    let res = guard(|| -> Result<Vec<(&'static str, bool)>, String> {
        let f = ex_msg(exmex::FlatEx::<f64>::parse(&text))?;
        let d = ex_msg(DeepEx::<f64>::parse(&text))?;
        let mut out = vec![
            ("FlatEx::partial_iter", f.clone().partial_iter(seq.iter().copied()).is_ok()),
            ("DeepEx::partial_iter", d.clone().partial_iter(seq.iter().copied()).is_ok()),
            ("FlatEx::partial_iter_relaxed", f.clone().partial_iter_relaxed(seq.iter().copied(), MissingOpMode::Error).is_ok()),
            ("DeepEx::partial_iter_relaxed", d.clone().partial_iter_relaxed(seq.iter().copied(), MissingOpMode::PerOperand).is_ok()),
            ("FlatEx::partial", f.clone().partial(bad).is_ok()),
            ("DeepEx::partial", d.clone().partial(bad).is_ok()),
            ("FlatEx::partial_relaxed", f.clone().partial_relaxed(bad, MissingOpMode::None).is_ok()),
            ("FlatEx::partial_nth", f.clone().partial_nth(bad, len).is_ok()),
            ("DeepEx::partial_nth", d.clone().partial_nth(bad, len).is_ok()),
            ("DeepEx::partial_nth_relaxed", d.clone().partial_nth_relaxed(bad, len, MissingOpMode::Error).is_ok()),
        ];
        // sequential single steps: the step with the bad index must fail
        let mut cur = Some(f.clone());
        for (k, i) in seq.iter().enumerate() {
            if let Some(c) = cur.take() {
                match c.partial(*i) {
                    Ok(nx) => {
                        if k == bad_pos {
                            out.push(("FlatEx::partial (step of a sequence)", true));
                        }
                        cur = Some(nx)
                    }
                    Err(_) => break,
                }
            }
        }
        Ok(out)
    });
    match res {
        Err(p) => Err(fail("C09/out-of-range/panic", format!("`{text}` with indices {seq:?} ({n} variables) panics: {p}"), describe())),
        Ok(Err(e)) => Err(fail("C09/out-of-range/parse", format!("`{text}`: {e}"), describe())),
        Ok(Ok(list)) => {
            for (what, ok) in list {
                if ok {
                    return Err(fail(
                        &format!("C09/out-of-range/{what}/accepted"),
                        format!("`{text}` has {n} variables but {what} with indices {seq:?} (entry {bad} out of range) returns Ok"),
                        describe(),
                    ));
                }
            }
            Ok(())
        }
    }
}

/// a variable that no longer occurs is still listed: the same slice evaluates the derivative
fn vanishing_variables(tape: &[u32], st: &mut Stats) -> CaseResult {
    let mut t = Tape::new(tape);
    let nv = 2 + t.choose(3);
    // sum of terms, each variable to a small power: high enough order makes variables vanish
    let mut terms = vec![];
    for v in 0..nv {
        let p = t.choose(3);
        terms.push(match p {
            0 => format!("{}", VAR_NAMES[v]),
            1 => format!("{}^2", VAR_NAMES[v]),
            _ => format!("3*{}", VAR_NAMES[v]),
        });
    }
    if t.chance(50) {
        terms.push(format!("{}*{}", VAR_NAMES[0], VAR_NAMES[1]));
    }
    let text = terms.join(if t.chance(50) { " + " } else { " - " });
    let mut names: Vec<String> = (0..nv).map(|v| VAR_NAMES[v].to_string()).collect();
    names.sort();
    let seq = gen_seq(&mut t, nv, 4, false);
    st.class(&format!("history length {}", seq.len()));
    if seq.len() >= 2 && st.nontrivial(&format!("{text}|{seq:?}")) && st.want_sample() {
        st.sample(json!({"text": text, "indices": seq}));
    }
    let describe = || json!({"text": text, "indices": seq, "vars": names});
    let vals: Vec<f64> = (0..nv).map(|k| 0.75 + k as f64).collect();
    let res = guard(|| -> Result<Vec<(&'static str, Vec<String>, Result<f64, String>)>, String> {
        let f = ex_msg(exmex::FlatEx::<f64>::parse(&text))?;
        let d = ex_msg(DeepEx::<f64>::parse(&text))?;
        let mut out = vec![];
        let fi = ex_msg(f.clone().partial_iter(seq.iter().copied()))?;
        out.push(("FlatEx::partial_iter", fi.var_names().to_vec(), ex_msg(fi.eval(&vals))));
        let di = ex_msg(d.clone().partial_iter(seq.iter().copied()))?;
        out.push(("DeepEx::partial_iter", di.var_names().to_vec(), ex_msg(di.eval(&vals))));
        let mut cur = f.clone();
        for i in &seq {
            cur = ex_msg(cur.partial(*i))?;
        }
        out.push(("FlatEx sequential", cur.var_names().to_vec(), ex_msg(cur.eval(&vals))));
        let mut cur = d.clone();
        for i in &seq {
            cur = ex_msg(cur.partial(*i))?;
        }
        out.push(("DeepEx sequential", cur.var_names().to_vec(), ex_msg(cur.eval(&vals))));
        Ok(out)
    });
    match res {
        Err(p) => Err(fail("C09/vanishing/panic", format!("`{text}` along {seq:?} panics: {p}"), describe())),
        Ok(Err(e)) => Err(fail("C09/vanishing/error", format!("`{text}` along {seq:?} fails: {e}"), describe())),
        Ok(Ok(list)) => {
            let first = list[0].2.clone();
            for (what, dn, v) in list {
                if dn != names {
                    return Err(fail(&format!("C09/vanishing/{what}/var-names"), format!("{what} of `{text}` along {seq:?}: variables {dn:?}, antiderivative has {names:?}"), describe()));
                }
                match (&v, &first) {
                    (Ok(a), Ok(b)) if close(*a, *b, 1e-9) => {}
                    _ => {
                        return Err(fail(&format!("C09/vanishing/{what}/value"), format!("{what} of `{text}` along {seq:?}: {v:?} vs {first:?}"), describe()))
                    }
                }
            }
            Ok(())
        }
    }
}

pub fn def() -> PropDef {
    PropDef {
        id: "C09",
        level_text: "generated differentiable expressions x index histories of length 0-4: every library route (sequential partial, partial_iter, partial_nth, relaxed variants, reversed order) must keep the antiderivative's variable list and equal the derivative of that order computed with triply nested dual numbers (tolerance over f64, exact over rationals); out-of-range indices at every position must give Err",
        assumptions: vec![
            "partial_nth(i, 0) with i out of range is not judged (the statement pulls both ways)",
            "points are judged only where the reference of that order is in the interior of the domain",
        ],
        subs: vec![
            SubCheck {
                name: "relations_f64",
                rule: "tape -> tree(1-7 nodes) x 1-4 variables x index history (length 0-3, valid) x up to 6 interior points x FlatEx|DeepEx; routes: sequential, partial_iter(_relaxed), partial_nth(_relaxed) when all indices equal, order 0, reversed order; non-trivial = history with two different indices",
                kind: Kind::Tape { len: 200, quick: 10_000, thorough: 600_000, f: relations_f64 },
            },
            SubCheck {
                name: "relations_exact",
                rule: "the same over exact rationals for + - * / and integer powers; equality without tolerance; non-trivial = history of length >= 2",
                kind: Kind::Tape { len: 200, quick: 10_000, thorough: 600_000, f: relations_exact },
            },
            SubCheck {
                name: "out_of_range",
                rule: "tape -> tree x history of length 1-4 with exactly one entry >= number of variables at a chosen position (first, middle, last), also for expressions without variables; partial, partial_nth, partial_iter and relaxed variants on FlatEx and DeepEx must return Err; distinct by text+history",
                kind: Kind::Tape { len: 150, quick: 20_000, thorough: 1_000_000, f: out_of_range },
            },
            SubCheck {
                name: "vanishing_variables",
                rule: "sums of low powers of 2-4 variables x history of length 0-4: variables vanish from the derivative but stay listed; all routes evaluate with the antiderivative's slice and agree; non-trivial = history of length >= 2",
                kind: Kind::Tape { len: 60, quick: 8_000, thorough: 400_000, f: vanishing_variables },
            },
        ],
    }
}
