//! C10 — Operator application on expressions is a homomorphism.
use super::c05::Q_POINTS;
use super::PropDef;
use crate::calc::*;
use crate::hist::*;
use crate::q::{QMatcher, QOps, Q};
use crate::runner::*;
use crate::tape::Tape;
use crate::tcase::ex_msg;
use exmex::prelude::*;
use exmex::{DeepEx, DiffDataType, FloatOpsFactory, MakeOperators, MatchLiteral, NumberMatcher};
use serde_json::json;
use std::collections::BTreeSet;
use std::fmt::Debug;
use std::str::FromStr;

fn by_name(tape: &[u32], st: &mut Stats) -> CaseResult {
    by_name_with(tape, st, 0)
}
/// the same histories on operands in which about one node in twelve carries a tower of 14-43 unary
/// operators (beyond the 16 a node stores inline)
fn by_name_towers(tape: &[u32], st: &mut Stats) -> CaseResult {
    by_name_with(tape, st, 8)
}
fn by_name_with(tape: &[u32], st: &mut Stats, tower_pct: u32) -> CaseResult {
    let cfg = HistCfg { prop: "C10", weights: [3, 6, 0, 1, 1, 1, 3], max_steps: 6, check_print: false, check_serde: false, weird_pct: 5, tower_pct: tower_pct };
    let out = run_history(tape, st, &cfg)?;
    st.class_if(out.steps >= 2, ">=2 applications");
    st.class_if(out.n_bin_diff_vars >= 1, "binary application on operands with different variable sets");
    st.class_if(out.unknown_names >= 1, "unknown operator name tried");
    if out.steps >= 2 && out.n_bin_diff_vars >= 1 {
        if st.nontrivial(&out.world.to_string()) && st.want_sample() {
            st.sample(out.world);
        }
    }
    Ok(())
}

// ---------------------------------------------------------------------------------------------
// simplifying overloaded operators on deep expressions

const SPECIAL_OPERANDS: [&str; 8] = ["0", "1", "(1-1)", "(3-2)", "0.0", "1.0", "2", "(2*0)"];

struct NEntry<'a, T: DiffDataType, OF: MakeOperators<T>, LM: MatchLiteral>
where
    <T as FromStr>::Err: Debug,
{
    tree: CT,
    d: DeepEx<'a, T, OF, LM>,
}
impl<'a, T: DiffDataType, OF: MakeOperators<T>, LM: MatchLiteral> Clone for NEntry<'a, T, OF, LM>
where
    <T as FromStr>::Err: Debug,
{
    fn clone(&self) -> Self {
        NEntry { tree: self.tree.clone(), d: self.d.clone() }
    }
}

fn parse_special(s: &str) -> CT {
    // tiny parser for the special operand spellings above
    match s {
        "(1-1)" => CT::Bin("-", Box::new(CT::Num("1".into())), Box::new(CT::Num("1".into()))),
        "(3-2)" => CT::Bin("-", Box::new(CT::Num("3".into())), Box::new(CT::Num("2".into()))),
        "(2*0)" => CT::Bin("*", Box::new(CT::Num("2".into())), Box::new(CT::Num("0".into()))),
        x => CT::Num(x.to_string()),
    }
}

fn sorted_names_of(t: &CT) -> Vec<String> {
    let mut used = vec![];
    ct_vars(t, &mut used);
    let mut v: Vec<String> = used.iter().map(|i| VAR_NAMES[*i].to_string()).collect();
    v.sort();
    v
}

fn simplifying<T, OF, LM>(
    tape: &[u32],
    st: &mut Stats,
    label: &str,
    helpers: bool,
    constructed: &dyn Fn(&mut Tape) -> Option<(String, CT, DeepEx<'static, T, OF, LM>)>,
    gen_pt: &dyn Fn(&mut Tape) -> T,
    same: &dyn Fn(&T, &T, f64) -> bool,
    cond: &dyn Fn(&CT, &[T]) -> Option<f64>,
) -> CaseResult
where
    T: DiffDataType + Num + Bounded + PartialEq + 'static,
    OF: MakeOperators<T> + 'static,
    LM: MatchLiteral + 'static,
    <T as FromStr>::Err: Debug,
{
    let mut t = Tape::new(tape);
    let nvars = 1 + t.choose(4);
    let cfg = CalcCfg { max_size: 5, nvars, rational_only: true, nondiff_pct: 0, unary_pct: 10 };
    let mut entries: Vec<NEntry<'static, T, OF, LM>> = vec![];
    let mut history: Vec<String> = vec![];
    let describe = |h: &Vec<String>| json!({"data_type": label, "history": h});
    for k in 0..3 {
        if t.chance(12) {
            // an operand made by a constructor instead of the parser
            if let Some((what, tree, d)) = constructed(&mut t) {
                history.push(format!("#{k} = {what}"));
                if !d.var_names().is_empty() {
                    return Err(fail("C10/simplifying/var-names", format!("{what} has variables {:?}", d.var_names()), describe(&history)));
                }
                entries.push(NEntry { tree, d });
                continue;
            }
        }
        let (tree, text) = if k == 2 || t.chance(25) {
            let s = *t.pick(&SPECIAL_OPERANDS);
            (parse_special(s), s.to_string())
        } else {
            let size = 1 + t.choose(cfg.max_size);
            let tr = gen_ct(&mut t, &cfg, size);
            let tx = render_ct(&tr, &mut t);
            (tr, tx)
        };
        let text: &'static str = leak(text);
        history.push(format!("#{k} = parse `{text}`"));
        match guard(|| DeepEx::<'static, T, OF, LM>::parse(text)) {
            Ok(Ok(d)) => entries.push(NEntry { tree, d }),
            Ok(Err(e)) => return Err(fail("C10/simplifying/parse-error", format!("`{text}` rejected: {}", e.msg()), describe(&history))),
            Err(p) => return Err(fail("C10/simplifying/panic", format!("`{text}` panics: {p}"), describe(&history))),
        }
    }
    let steps = 1 + t.choose(6);
    let mut shortcut_operand = false;
    let mut diff_vars = false;
    let mut n_steps = 0;
    for _ in 0..steps {
        let a = t.choose(entries.len());
        let b = t.choose(entries.len());
        let (ea, eb) = (entries[a].clone(), entries[b].clone());
        let kind = t.weighted(&[3, 2, 3, 3, 2, 1, if helpers { 1 } else { 0 }, 1]);
        // is an operand a constant 0 or 1 (literal or after folding)?
        let is_const01 = |e: &NEntry<'static, T, OF, LM>| {
            !ct_has_var(&e.tree) && {
                let mut ok = true;
                let v: T = eval_ct(&e.tree, &[], &mut ok);
                ok && (v.re() == 0.0 || v.re() == 1.0)
            }
        };
        if is_const01(&ea) || is_const01(&eb) {
            shortcut_operand = true;
        }
        if sorted_names_of(&ea.tree) != sorted_names_of(&eb.tree) {
            diff_vars = true;
        }
        let id = entries.len();
        let res: Result<Result<NEntry<'static, T, OF, LM>, String>, String> = match kind {
            0 => {
                history.push(format!("#{id} = #{a} + #{b}"));
                guard(|| Ok(NEntry { tree: CT::Bin("+", Box::new(ea.tree.clone()), Box::new(eb.tree.clone())), d: ex_msg(ea.d.clone() + eb.d.clone())? }))
            }
            1 => {
                history.push(format!("#{id} = #{a} - #{b}"));
                guard(|| Ok(NEntry { tree: CT::Bin("-", Box::new(ea.tree.clone()), Box::new(eb.tree.clone())), d: ex_msg(ea.d.clone() - eb.d.clone())? }))
            }
            2 => {
                history.push(format!("#{id} = #{a} * #{b}"));
                guard(|| Ok(NEntry { tree: CT::Bin("*", Box::new(ea.tree.clone()), Box::new(eb.tree.clone())), d: ex_msg(ea.d.clone() * eb.d.clone())? }))
            }
            3 => {
                history.push(format!("#{id} = #{a} / #{b}"));
                guard(|| Ok(NEntry { tree: CT::Bin("/", Box::new(ea.tree.clone()), Box::new(eb.tree.clone())), d: ex_msg(ea.d.clone() / eb.d.clone())? }))
            }
            4 => {
                history.push(format!("#{id} = #{a}.pow(#{b})"));
                // pow may refuse (0^0): acceptable iff the unsimplified power is nowhere well defined by
                // the property's standards (no sampled assignment with finite intermediates and without
                // a zero base under a non-positive exponent)
                let power_tree = CT::Bin("^", Box::new(ea.tree.clone()), Box::new(eb.tree.clone()));
                let both_zero_const = (0..6).all(|_| {
                    let full: Vec<T> = (0..VAR_NAMES.len()).map(|_| gen_pt(&mut t)).collect();
                    let mut ok = true;
                    let _: T = eval_ct(&power_tree, &full, &mut ok);
                    !ok
                });
                let r = guard(|| ea.d.clone().pow(eb.d.clone()));
                match r {
                    Err(p) => Err(p),
                    Ok(Err(e)) => {
                        if both_zero_const {
                            // 0^0 of two constants: an error is acceptable
                            history.push("(0^0 rejected: accepted)".into());
                            continue;
                        }
                        Ok(Err(e.msg().to_string()))
                    }
                    Ok(Ok(d)) => Ok(Ok(NEntry { tree: CT::Bin("^", Box::new(ea.tree.clone()), Box::new(eb.tree.clone())), d })),
                }
            }
            5 => {
                history.push(format!("#{id} = -#{a}"));
                guard(|| Ok(NEntry { tree: CT::Un("-", Box::new(ea.tree.clone())), d: ex_msg(-ea.d.clone())? }))
            }
            6 => {
                const HELPERS: [&str; 23] = [
                    "abs", "sin", "cos", "tan", "sinh", "cosh", "tanh", "asin", "acos", "atan", "signum", "log", "log2", "log10", "ln", "round",
                    "floor", "ceil", "exp", "sqrt", "cbrt", "fract", "trunc",
                ];
                let name = HELPERS[t.choose(HELPERS.len())];
                history.push(format!("#{id} = #{a}.{name}()"));
                guard(|| {
                    let x = ea.d.clone();
                    let d = match name {
                        "abs" => x.abs(),
                        "sin" => x.sin(),
                        "cos" => x.cos(),
                        "tan" => x.tan(),
                        "sinh" => x.sinh(),
                        "cosh" => x.cosh(),
                        "tanh" => x.tanh(),
                        "asin" => x.asin(),
                        "acos" => x.acos(),
                        "atan" => x.atan(),
                        "signum" => x.signum(),
                        "log" => x.log(),
                        "log2" => x.log2(),
                        "log10" => x.log10(),
                        "ln" => x.ln(),
                        "round" => x.round(),
                        "floor" => x.floor(),
                        "ceil" => x.ceil(),
                        "exp" => x.exp(),
                        "sqrt" => x.sqrt(),
                        "cbrt" => x.cbrt(),
                        "fract" => x.fract(),
                        _ => x.trunc(),
                    };
                    Ok(NEntry { tree: CT::Un(name, Box::new(ea.tree.clone())), d: ex_msg(d)? })
                })
            }
            _ => {
                let name = ["+", "*", "-", "/"][t.choose(4)];
                history.push(format!("#{id} = operate_binary(#{a}, #{b}, {name})"));
                guard(|| {
                    Ok(NEntry {
                        tree: CT::Bin(name, Box::new(ea.tree.clone()), Box::new(eb.tree.clone())),
                        d: ex_msg(ea.d.clone().operate_binary(eb.d.clone(), name))?,
                    })
                })
            }
        };
        let e = match res {
            Err(p) => return Err(fail("C10/simplifying/panic", format!("panic in step {:?}: {p}", history.last()), describe(&history))),
            Ok(Err(er)) => return Err(fail("C10/simplifying/error", format!("step {:?} fails: {er}", history.last()), describe(&history))),
            Ok(Ok(e)) => e,
        };
        n_steps += 1;
        if ct_size(&e.tree) > 60 {
            history.push("(result too large, dropped)".into());
            continue;
        }
        // variables: sorted union
        let names = sorted_names_of(&e.tree);
        if e.d.var_names() != &names[..] {
            return Err(fail(
                "C10/simplifying/var-names",
                format!("after {:?}: var_names {:?}, expected the sorted union {names:?}", history.last(), e.d.var_names()),
                describe(&history),
            ));
        }
        // values at assignments where the unsimplified form is well defined
        let mut used = vec![];
        ct_vars(&e.tree, &mut used);
        used.sort_by_key(|i| VAR_NAMES[*i]);
        let mut judged = 0;
        for _ in 0..6 {
            let full: Vec<T> = (0..VAR_NAMES.len()).map(|_| gen_pt(&mut t)).collect();
            let mut ok = true;
            let r = eval_ct(&e.tree, &full, &mut ok);
            if !ok {
                continue;
            }
            // conditioning of the value (f64 only): ill-conditioned points widen the tolerance
            let Some(sens) = cond(&e.tree, &full) else { continue };
            judged += 1;
            let vals: Vec<T> = used.iter().map(|i| full[*i].clone()).collect();
            let flat = guard(|| -> Result<(T, T), String> {
                let dv = ex_msg(e.d.eval(&vals))?;
                let f = ex_msg(FlatEx::<T, OF, LM>::from_deepex(e.d.clone()))?;
                Ok((dv, ex_msg(f.eval(&vals))?))
            });
            match flat {
                Err(p) => return Err(fail("C10/simplifying/eval-panic", format!("panic evaluating after {:?}: {p}", history.last()), describe(&history))),
                Ok(Err(er)) => return Err(fail("C10/simplifying/eval-error", format!("evaluation after {:?} fails: {er}", history.last()), describe(&history))),
                Ok(Ok((dv, fv))) => {
                    for (form, v) in [("deep", &dv), ("flattened", &fv)] {
                        if !same(v, &r, sens) {
                            return Err(fail(
                                "C10/simplifying/value",
                                format!("after {:?}: {form} value {v:?} at {vals:?}, the operator applied to the operands' values gives {r:?} (`{}`)", history.last(), e.d.unparse()),
                                describe(&history),
                            ));
                        }
                    }
                }
            }
            if judged >= 3 {
                break;
            }
        }
        st.class_if(judged == 0, "step result without a well-defined sample point");
        entries.push(e);
    }
    st.class_if(shortcut_operand, "an operand is a constant 0 or 1 (literal or after folding)");
    st.class_if(diff_vars, "operands with different variable sets");
    if n_steps >= 2 && diff_vars && shortcut_operand {
        if st.nontrivial(&history.join(";")) && st.want_sample() {
            st.sample(describe(&history));
        }
    }
    Ok(())
}

fn simplifying_f64(tape: &[u32], st: &mut Stats) -> CaseResult {
    simplifying::<f64, FloatOpsFactory<f64>, NumberMatcher>(
        tape,
        st,
        "f64",
        true,
        &|t: &mut Tape| {
            type DF = DeepEx<'static, f64>;
            let num = |x: f64| CT::Num(format!("{x:?}"));
            Some(match t.choose(7) {
                0 => ("DeepEx::pi()".to_string(), num(std::f64::consts::PI), DF::pi()),
                1 => ("DeepEx::e()".to_string(), num(std::f64::consts::E), DF::e()),
                2 => ("DeepEx::tau()".to_string(), num(std::f64::consts::TAU), DF::tau()),
                3 => ("DeepEx::one()".to_string(), num(1.0), DF::one()),
                4 => ("DeepEx::zero()".to_string(), num(0.0), DF::zero()),
                5 => {
                    let x = [2.5, -0.75, 0.0, 1.0, 1e-3, 12.0][t.choose(6)];
                    (format!("DeepEx::from_num({x:?})"), num(x), DF::from_num(x))
                }
                _ => {
                    let x = [0.5, -3.0, 0.0, 1.0][t.choose(4)];
                    // a flat expression from a number, converted
                    let f = exmex::FlatEx::<f64>::from_num(x);
                    (format!("FlatEx::from_num({x:?}).to_deepex()"), num(x), f.to_deepex().ok()?)
                }
            })
        },
        &|t: &mut Tape| [0.5, 2.0, -1.5, 3.0, 0.25, -0.75, 1.25, 4.0][t.choose(8)],
        &|a: &f64, b: &f64, sens: f64| close_cond(*a, *b, 1e-9, sens),
        &|tree: &CT, full: &[f64]| {
            let f = |p: &[f64]| {
                let mut o = true;
                let r: f64 = eval_ct(tree, p, &mut o);
                o.then_some(r)
            };
            sensitivity(&f, full)
        },
    )
}
fn simplifying_exact(tape: &[u32], st: &mut Stats) -> CaseResult {
    simplifying::<Q, QOps, QMatcher>(
        tape,
        st,
        "exact rationals",
        false,
        &|t: &mut Tape| {
            type DQ = DeepEx<'static, Q, QOps, QMatcher>;
            Some(match t.choose(3) {
                0 => ("DeepEx::one()".to_string(), CT::Num("1".into()), DQ::one()),
                1 => ("DeepEx::zero()".to_string(), CT::Num("0".into()), DQ::zero()),
                _ => {
                    let (n, d) = *t.pick(&Q_POINTS);
                    let frac = CT::Bin("/", Box::new(CT::Num(format!("{}", n.abs()))), Box::new(CT::Num(format!("{d}"))));
                    (format!("DeepEx::from_num({n}/{d})"), if n < 0 { CT::Un("-", Box::new(frac)) } else { frac }, DQ::from_num(Q::ratio(n, d)))
                }
            })
        },
        &|t: &mut Tape| {
            let (n, d) = *t.pick(&Q_POINTS);
            Q::ratio(n, d)
        },
        &|a: &Q, b: &Q, _sens: f64| a == b,
        &|_tree: &CT, _full: &[Q]| Some(0.0),
    )
}

pub fn def() -> PropDef {
    let _ = BTreeSet::<usize>::new();
    PropDef {
        id: "C10",
        level_text: "stateful histories: (1) by-name and helper applications on flat and deep expressions over a term algebra, variables and symbolic value compared with the reference tree after every step, unknown names must fail; (2) the simplifying overloaded operators + - * / pow neg and named helpers on deep expressions over f64 and exact rationals, compared with the unsimplified reference at assignments where it is well defined",
        assumptions: vec![
            "simplifying part: a point is judged only if the unsimplified reference stays within the domain margins (divisors and bases of non-positive powers at least 0.05 away from 0, values below 1e6); 1e-9 relative tolerance over f64, none over rationals",
            "0^0 of two constants may be rejected with an error",
        ],
        subs: vec![
            SubCheck {
                name: "by_name",
                rule: "tape -> table x pool of 3 parsed expressions x 1-6 steps (operate_unary, operate_binary, conversions, unknown names, DeepEx helper methods and the overloaded operators - & | ^ % and unary minus against tables that may or may not define the name); non-trivial = >=2 applications incl. a binary one on operands with different variable sets; distinct by history",
                kind: Kind::Tape { len: 500, quick: 20_000, thorough: 1_000_000, f: by_name },
            },
            SubCheck {
                name: "by_name_towers",
                rule: "as by_name with operands in which about one node in twelve carries a tower of 14-43 unary operators (a node stores 16 inline); non-trivial as by_name",
                kind: Kind::Tape { len: 1100, quick: 5000, thorough: 250000, f: by_name_towers },
            },
            SubCheck {
                name: "simplifying_f64",
                rule: "tape -> 3 deep expressions (rational grammar, literals 0/1, constants folding to 0/1) x 1-6 steps (+ - * / pow neg sin/cos/exp/tanh/atan helpers, by-name application); after each step var_names = sorted union and deep/flattened value = reference at up to 3 well-defined points; non-trivial = >=2 steps, operands with different variable sets, an operand that is a constant 0 or 1",
                kind: Kind::Tape { len: 400, quick: 20_000, thorough: 1_000_000, f: simplifying_f64 },
            },
            SubCheck {
                name: "simplifying_exact",
                rule: "the same over arbitrary-precision rationals (no helpers); exact equality",
                kind: Kind::Tape { len: 400, quick: 15_000, thorough: 600_000, f: simplifying_exact },
            },
        ],
    }
}
