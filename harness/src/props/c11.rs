//! C11 — Substitution replaces variables simultaneously and keeps the rest.
use super::PropDef;
use crate::calc::*;
use crate::hist::*;
use crate::runner::*;
use crate::tape::Tape;
use crate::tcase::ex_msg;
use exmex::prelude::*;
use exmex::DeepEx;
use serde_json::json;

fn subs_histories(tape: &[u32], st: &mut Stats) -> CaseResult {
    subs_histories_with(tape, st, 0)
}
/// the same histories on operands in which about one node in twelve carries a tower of 14-43 unary
/// operators (beyond the 16 a node stores inline)
fn subs_histories_towers(tape: &[u32], st: &mut Stats) -> CaseResult {
    subs_histories_with(tape, st, 8)
}
fn subs_histories_with(tape: &[u32], st: &mut Stats, tower_pct: u32) -> CaseResult {
    let cfg = HistCfg { prop: "C11", weights: [2, 3, 7, 1, 0, 0, 0], max_steps: 6, check_print: false, check_serde: false, weird_pct: 10, tower_pct: tower_pct };
    let out = run_history(tape, st, &cfg)?;
    st.class_if(out.n_subs >= 1, "a substitution replaced an occurring variable");
    st.class_if(out.subs_self_ref, "a replacement mentions a replaced variable");
    st.class_if(out.subs_repeated_var, "a replaced variable occurs >=2 times");
    if out.subs_self_ref && out.subs_repeated_var {
        if st.nontrivial(&out.world.to_string()) && st.want_sample() {
            st.sample(out.world);
        }
    }
    Ok(())
}

/// numeric version over the default float operators, with printing of the result parsed back
fn subs_f64(tape: &[u32], st: &mut Stats) -> CaseResult {
    let mut t = Tape::new(tape);
    let cfg = CalcCfg { max_size: 6, nvars: 3, rational_only: true, nondiff_pct: 0, unary_pct: 15 };
    let (s1, s2) = (1 + t.choose(6), 1 + t.choose(4));
    let a = gen_ct(&mut t, &cfg, s1);
    let b = gen_ct(&mut t, &cfg, s2);
    let c = gen_ct(&mut t, &cfg, 1 + s2 % 3);
    let (ta, tb, tc) = (render_ct(&a, &mut t), render_ct(&b, &mut t), render_ct(&c, &mut t));
    // x -> b, y -> c (simultaneously), z untouched; or the empty map
    let mode = t.choose(4);
    let replaced: Vec<(usize, &CT)> = match mode {
        0 => vec![],
        1 => vec![(0, &b)],
        2 => vec![(0, &b), (1, &c)],
        _ => vec![(1, &b), (0, &c)],
    };
    fn subst(t: &CT, m: &[(usize, &CT)]) -> CT {
        match t {
            CT::Var(i) => m.iter().find(|(k, _)| k == i).map(|(_, r)| (*r).clone()).unwrap_or(CT::Var(*i)),
            CT::Un(o, x) => CT::Un(o, Box::new(subst(x, m))),
            CT::Bin(o, x, y) => CT::Bin(o, Box::new(subst(x, m)), Box::new(subst(y, m))),
            n => n.clone(),
        }
    }
    let expected_tree = subst(&a, &replaced);
    let mut used = vec![];
    ct_vars(&expected_tree, &mut used);
    used.sort_by_key(|i| VAR_NAMES[*i]);
    let names: Vec<String> = used.iter().map(|i| VAR_NAMES[*i].to_string()).collect();
    st.class(["empty map", "one variable", "two variables simultaneously", "swap-like"][mode]);
    let mut av = vec![];
    ct_vars(&a, &mut av);
    let hits = replaced.iter().filter(|(k, _)| av.contains(k)).count();
    let self_ref = replaced.iter().any(|(_, r)| { let mut rv = vec![]; ct_vars(r, &mut rv); replaced.iter().any(|(k, _)| rv.contains(k) && av.contains(k)) });
    if hits >= 1 && self_ref && st.nontrivial(&format!("{ta}|{tb}|{tc}|{mode}")) && st.want_sample() {
        st.sample(json!({"target": ta, "replacements": replaced.iter().map(|(k, r)| format!("{} -> {}", VAR_NAMES[*k], if std::ptr::eq(*r, &b) { tb.clone() } else { tc.clone() })).collect::<Vec<_>>()}));
    }
    let describe = || json!({"target": ta, "b": tb, "c": tc, "mode": mode, "expected_vars": names});
    let map_of = |name: &str| -> Option<&str> {
        let i = VAR_NAMES.iter().position(|n| *n == name)?;
        replaced.iter().find(|(k, _)| *k == i).map(|(_, r)| if std::ptr::eq(*r, &b) { tb.as_str() } else { tc.as_str() })
    };
    let res = guard(|| -> Result<Vec<(&'static str, Vec<String>, Vec<(Vec<f64>, f64)>, String)>, String> {
        let mut out = vec![];
        let pts: Vec<Vec<f64>> = vec![vec![0.5, 2.0, -1.5, 3.0], vec![1.25, -0.75, 4.0, 0.25], vec![3.0, 0.5, 2.0, -1.5]];
        let f = ex_msg(exmex::FlatEx::<f64>::parse(&ta))?;
        let mut sf = |n: &str| map_of(n).map(|txt| exmex::FlatEx::<f64>::parse(txt).unwrap());
        let fs = ex_msg(f.subs(&mut sf))?;
        let d = ex_msg(DeepEx::<f64>::parse(&ta))?;
        let mut sd = |n: &str| map_of(n).map(|txt| DeepEx::<f64>::parse(txt).unwrap());
        let ds = ex_msg(d.subs(&mut sd))?;
        for (what, names_, evalf, text) in [
            ("FlatEx::subs", fs.var_names().to_vec(), Box::new(|v: &[f64]| fs.eval(v)) as Box<dyn Fn(&[f64]) -> exmex::ExResult<f64>>, fs.unparse().to_string()),
            ("DeepEx::subs", ds.var_names().to_vec(), Box::new(|v: &[f64]| ds.eval(v)), ds.unparse().to_string()),
        ] {
            let mut vals = vec![];
            for p in &pts {
                let v: Vec<f64> = used.iter().map(|i| p[*i]).collect();
                if names_.len() == v.len() {
                    vals.push((p.clone(), ex_msg(evalf(&v))?));
                }
            }
            out.push((what, names_, vals, text));
        }
        Ok(out)
    });
    match res {
        Err(p) => Err(fail("C11/f64/panic", format!("subs on `{ta}` panics: {p}"), describe())),
        Ok(Err(e)) => Err(fail("C11/f64/error", format!("subs on `{ta}` fails: {e}"), describe())),
        Ok(Ok(list)) => {
            for (what, got_names, vals, text) in list {
                if got_names != names {
                    return Err(fail(&format!("C11/f64/{what}/var-names"), format!("{what} on `{ta}`: variables {got_names:?}, expected {names:?}"), describe()));
                }
                for (p, v) in vals {
                    let mut ok = true;
                    let r: f64 = eval_ct(&expected_tree, &p, &mut ok);
                    let f = |q: &[f64]| {
                        let mut o = true;
                        let x: f64 = eval_ct(&expected_tree, q, &mut o);
                        o.then_some(x)
                    };
                    let Some(sens) = sensitivity(&f, &p) else { continue };
                    if ok && !close_cond(v, r, 1e-9, sens) {
                        return Err(fail(&format!("C11/f64/{what}/value"), format!("{what} on `{ta}` (`{text}`) at {p:?}: {v}, simultaneous substitution gives {r}"), describe()));
                    }
                }
                // printed text parses back to the same function (when its literals are re-parseable)
                if float_text_reparseable(&text) {
                    match exmex::FlatEx::<f64>::parse(&text) {
                        Err(e) => return Err(fail(&format!("C11/f64/{what}/reparse"), format!("printed `{text}` does not parse back: {}", e.msg()), describe())),
                        Ok(g) => {
                            if g.var_names() != &names[..] {
                                return Err(fail(&format!("C11/f64/{what}/reparse-names"), format!("printed `{text}` parses back with variables {:?}, expected {names:?}", g.var_names()), describe()));
                            }
                        }
                    }
                }
            }
            Ok(())
        }
    }
}

/// replacements that are constants but still list variables (a vanished derivative, `p*0`, `p^0`):
/// the result lists the untouched variables and the replacement's variables
fn subs_vanished(tape: &[u32], st: &mut Stats) -> CaseResult {
    let mut t = Tape::new(tape);
    let cfg = CalcCfg { max_size: 6, nvars: 3, rational_only: true, nondiff_pct: 0, unary_pct: 15 };
    let size = 1 + t.choose(6);
    let a = gen_ct(&mut t, &cfg, size);
    let ta: &'static str = crate::hist::leak(render_ct(&a, &mut t));
    let mut av = vec![];
    ct_vars(&a, &mut av);
    let target = t.choose(3); // the replaced variable: x, y or z
    let kind = t.choose(4);
    let second = t.chance(40); // a second, ordinary replacement at the same time
    let other = (target + 1) % 3;
    // (description, value, listed variables) of the constant replacement
    let (what, cval, cvars): (&str, f64, Vec<&str>) = match kind {
        0 => ("d/dp (2.5*p+q) = 2.5 over [p, q]", 2.5, vec!["p", "q"]),
        1 => ("p*0 over [p]", 0.0, vec!["p"]),
        2 => ("(p+q)^0 = 1 over [p, q]", 1.0, vec!["p", "q"]),
        _ => ("d/dq d/dq (q*q*1.5+x) = 3 over [q, x]", 3.0, vec!["q", "x"]),
    };
    let make = || -> Result<DeepEx<'static, f64>, String> {
        type D = DeepEx<'static, f64>;
        Ok(match kind {
            0 => ex_msg(ex_msg(D::parse("2.5*p+q"))?.partial(0))?,
            1 => ex_msg(ex_msg(D::parse("p"))? * D::zero())?,
            2 => ex_msg(ex_msg(D::parse("p+q"))?.pow(D::zero()))?,
            _ => ex_msg(ex_msg(D::parse("q*q*1.5+x"))?.partial_nth(0, 2))?,
        })
    };
    let hit = av.contains(&target);
    let hit2 = second && av.contains(&other);
    st.class_if(hit, "the replaced variable occurs");
    st.class(what);
    let mut names: std::collections::BTreeSet<String> = av.iter().filter(|i| !(hit && **i == target) && !(hit2 && **i == other)).map(|i| VAR_NAMES[*i].to_string()).collect();
    if hit {
        names.extend(cvars.iter().map(|s| s.to_string()));
    }
    if hit2 {
        names.insert("w".to_string());
    }
    let names: Vec<String> = names.into_iter().collect();
    // reference: the target with the variable bound to the constant (and `other` to w+1)
    fn subst(t: &CT, target: usize, c: f64, other: Option<usize>) -> CT {
        match t {
            CT::Var(i) if *i == target => CT::Num(format!("{c:?}")),
            CT::Var(i) if Some(*i) == other => CT::Bin("+", Box::new(CT::Var(3)), Box::new(CT::Num("1".into()))),
            CT::Un(o, x) => CT::Un(o, Box::new(subst(x, target, c, other))),
            CT::Bin(o, x, y) => CT::Bin(o, Box::new(subst(x, target, c, other)), Box::new(subst(y, target, c, other))),
            n => n.clone(),
        }
    }
    let expected_tree = subst(&a, target, cval, if second { Some(other) } else { None });
    if hit && st.nontrivial(&format!("{ta}|{target}|{kind}|{second}")) && st.want_sample() {
        st.sample(json!({"target": ta, "replaced": VAR_NAMES[target], "by": what, "expected_vars": names}));
    }
    let describe = || json!({"target": ta, "replaced": VAR_NAMES[target], "by": what, "second_replacement": if second { format!("{} -> w+1", VAR_NAMES[other]) } else { String::new() }, "expected_vars": names});
    // full assignment over x y z w p q
    let value_of = |n: &str, p: &[f64]| -> f64 {
        match n {
            "x" => p[0],
            "y" => p[1],
            "z" => p[2],
            "w" => p[3],
            "p" => 7.0,
            _ => -3.0,
        }
    };
    let pts: Vec<Vec<f64>> = vec![vec![0.5, 2.0, -1.5, 3.0], vec![1.25, -0.75, 4.0, 0.25]];
    let res = guard(|| -> Result<Vec<(&'static str, Vec<String>, Vec<f64>)>, String> {
        let tname = VAR_NAMES[target];
        let oname = VAR_NAMES[other];
        let d = ex_msg(DeepEx::<f64>::parse(ta))?;
        let mut sd = |n: &str| {
            if n == tname {
                make().ok()
            } else if second && n == oname {
                DeepEx::<f64>::parse("w+1").ok()
            } else {
                None
            }
        };
        let ds = ex_msg(d.subs(&mut sd))?;
        let f = ex_msg(exmex::FlatEx::<f64>::parse(ta))?;
        let mut sf = |n: &str| {
            if n == tname {
                make().ok().and_then(|x| exmex::FlatEx::<f64>::from_deepex(x).ok())
            } else if second && n == oname {
                exmex::FlatEx::<f64>::parse("w+1").ok()
            } else {
                None
            }
        };
        let fs = ex_msg(f.subs(&mut sf))?;
        let mut out = vec![];
        for (what, nm, ev) in [
            ("DeepEx::subs", ds.var_names().to_vec(), Box::new(|v: &[f64]| ds.eval(v)) as Box<dyn Fn(&[f64]) -> exmex::ExResult<f64>>),
            ("FlatEx::subs", fs.var_names().to_vec(), Box::new(|v: &[f64]| fs.eval(v))),
        ] {
            let mut vals = vec![];
            for p in &pts {
                let v: Vec<f64> = nm.iter().map(|n| value_of(n, p)).collect();
                vals.push(ex_msg(ev(&v)).map_err(|e| format!("{what}: evaluating the result with {} values fails: {e}", v.len()))?);
            }
            out.push((what, nm, vals));
        }
        Ok(out)
    });
    match res {
        Err(p) => Err(fail("C11/vanished/panic", format!("subs on `{ta}` panics: {p}"), describe())),
        Ok(Err(e)) => Err(fail("C11/vanished/error", format!("subs on `{ta}` ({} -> {what}) fails: {e}", VAR_NAMES[target]), describe())),
        Ok(Ok(list)) => {
            for (route, got_names, vals) in list {
                if got_names != names {
                    return Err(fail(
                        &format!("C11/vanished/{route}/var-names"),
                        format!("{route} on `{ta}` with {} -> {what}: variables {got_names:?}, expected the union {names:?}", VAR_NAMES[target]),
                        describe(),
                    ));
                }
                for (p, v) in pts.iter().zip(vals) {
                    let mut ok = true;
                    let r: f64 = eval_ct(&expected_tree, p, &mut ok);
                    let f = |q: &[f64]| {
                        let mut o = true;
                        let x: f64 = eval_ct(&expected_tree, q, &mut o);
                        o.then_some(x)
                    };
                    let Some(sens) = sensitivity(&f, p) else { continue };
                    if ok && !close_cond(v, r, 1e-9, sens) {
                        return Err(fail(&format!("C11/vanished/{route}/value"), format!("{route} on `{ta}` with {} -> {what} at {p:?}: {v}, expected {r}", VAR_NAMES[target]), describe()));
                    }
                }
            }
            Ok(())
        }
    }
}

pub fn def() -> PropDef {
    PropDef {
        id: "C11",
        level_text: "stateful histories with substitutions (partial maps from variables to pool expressions: self-referential, constant, renaming, swapping, empty) on flat and deep expressions over a term algebra; after every step variables and symbolic value are compared with simultaneous tree substitution; numeric version over the default float operators with the printed result parsed back",
        assumptions: vec!["reference = simultaneous substitution on the generated trees (replacements are not re-substituted)"],
        subs: vec![
            SubCheck {
                name: "subs_histories",
                rule: "tape -> table x pool of 3 expressions over 0-5 variables x 1-6 steps (substitution 7 : binary 3 : unary 2 : conversion 1), results re-enter the pool (repeated substitution); non-trivial = a replaced variable occurs >=2 times and a replacement mentions a replaced variable; distinct by history",
                kind: Kind::Tape { len: 600, quick: 25_000, thorough: 1_000_000, f: subs_histories },
            },
            SubCheck {
                name: "subs_histories_towers",
                rule: "as subs_histories with operands in which about one node in twelve carries a tower of 14-43 unary operators (a node stores 16 inline); non-trivial as subs_histories",
                kind: Kind::Tape { len: 1200, quick: 6250, thorough: 250000, f: subs_histories_towers },
            },
            SubCheck {
                name: "subs_f64",
                rule: "three rational expressions over x,y,z,w x map (empty | x->b | x->b,y->c | y->b,x->c) on FlatEx<f64> and DeepEx<f64>; variables, value at 3 points (1e-9), printed text parses back",
                kind: Kind::Tape { len: 200, quick: 15_000, thorough: 600_000, f: subs_f64 },
            },
            SubCheck {
                name: "subs_vanished",
                rule: "a rational expression over x,y,z with one variable replaced by a constant that still lists variables (vanished first/second derivative, p*0, (p+q)^0), optionally a second variable by w+1, on DeepEx<f64> and FlatEx<f64>: variable list = untouched variables + the replacements' listed variables, value at 2 points; non-trivial = the replaced variable occurs",
                kind: Kind::Tape { len: 120, quick: 4_000, thorough: 200_000, f: subs_vanished },
            },
        ],
    }
}
