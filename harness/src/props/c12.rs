//! C12 — Printed expressions parse back to the same expression.
use super::PropDef;
use crate::calc::*;
use crate::gen::*;
use crate::hist::*;
use crate::runner::*;
use crate::soup::gen_soup;
use crate::tape::Tape;
use crate::tcase::*;
use crate::term::{describe_table, set_table, OpSpec, Term};
use exmex::prelude::*;
use exmex::DeepEx;
use serde_json::json;

fn print_histories(tape: &[u32], st: &mut Stats) -> CaseResult {
    print_histories_with(tape, st, 0)
}
/// the same histories on operands in which about one node in twelve carries a tower of 14-43 unary
/// operators (beyond the 16 a node stores inline)
fn print_histories_towers(tape: &[u32], st: &mut Stats) -> CaseResult {
    print_histories_with(tape, st, 8)
}
fn print_histories_with(tape: &[u32], st: &mut Stats, tower_pct: u32) -> CaseResult {
    let cfg = HistCfg { prop: "C12", weights: [3, 5, 3, 2, 0, 1, 1], max_steps: 4, check_print: true, check_serde: true, weird_pct: 15, tower_pct: tower_pct };
    let out = run_history(tape, st, &cfg)?;
    st.class_if(out.printable, "table printable without ambiguity");
    st.class_if(out.steps >= 1, ">=1 transformation step");
    if out.printable && out.steps >= 1 {
        if st.nontrivial(&out.world.to_string()) && st.want_sample() {
            st.sample(out.world);
        }
    }
    Ok(())
}

/// A flat expression obtained by parsing prints exactly the text it was parsed from.
fn flat_text_identity(tape: &[u32], st: &mut Stats) -> CaseResult {
    let mut t = Tape::new(tape);
    let cfg = CaseCfg {
        table: TableCfg::default(),
        tree: TreeCfg::default(),
        render: RenderCfg { space_pct: 50, call_pct: 20, ..RenderCfg::default() },
        max_vars: 4,
        weird_pct: 20,
    };
    let case = gen_term_case(&mut t, &cfg);
    let (text, origin) = if t.chance(50) { (case.text.clone(), "well-formed") } else { gen_soup(&mut t, &case.table, &case.pool, &case.toks) };
    st.class(origin);
    let describe = || json!({"text": text, "table": describe_table(&case.table)});
    for (what, r) in [
        ("FlatEx::parse", guard(|| F::parse(&text).map(|e| (e.unparse().to_string(), format!("{e}"))))),
        ("FlatEx::parse_wo_compile", guard(|| F::parse_wo_compile(&text).map(|e| (e.unparse().to_string(), format!("{e}"))))),
    ] {
        match r {
            Err(p) => return Err(fail("C12/identity/panic", format!("`{text}` panics: {p}"), describe())),
            Ok(Err(_)) => {
                st.class("rejected (not judged)");
            }
            Ok(Ok((u, disp))) => {
                if text.trim() != text && st.nontrivial(&text) && st.want_sample() {
                    st.sample(describe());
                }
                st.class("accepted");
                if u != text || disp != text {
                    return Err(fail(
                        &format!("C12/identity/{what}"),
                        format!("{what}(`{text}`) prints `{u}` (Display `{disp}`)"),
                        describe(),
                    ));
                }
            }
        }
    }
    // default float and value parsers; texts whose JSON form needs escapes (quote, backslash, tab
    // inside braces) take the owned-string path of the deserialiser, plain ones the borrowed path;
    // reader and Value input always take the owned path
    const FT: [&str; 12] = [
        "  x+ 1", "sin ( z) +  {another var} ", " 2 * x", "(x) ", "1.0e", "atan2( x , 2)", "{a\"b} * 2 - x", "{back\\slash}+{tab\there}/2",
        "{\u{1F600}}^2 + \u{3b1}", "-{\"}+ +{\"}", "x", " 7 ",
    ];
    let ft = FT[t.choose(FT.len())];
    st.class_if(ft.contains('"') || ft.contains('\\') || ft.contains('\t'), "text needing JSON escapes");
    if let Ok(e) = exmex::FlatEx::<f64>::parse(ft) {
        if e.unparse() != ft {
            return Err(fail("C12/identity/f64", format!("FlatEx::<f64>::parse(`{ft}`) prints `{}`", e.unparse()), json!({"text": ft})));
        }
        let js = serde_json::to_string(&e).unwrap();
        if serde_json::from_str::<String>(&js).ok().as_deref() != Some(ft) {
            return Err(fail("C12/identity/f64-serde", format!("`{ft}` is serialised as {js}, which is not the JSON string of its text"), json!({"text": ft})));
        }
        let vals: Vec<f64> = (0..e.var_names().len()).map(|i| 0.75 + i as f64).collect();
        let v0 = e.eval(&vals).map_err(|x| x.msg().to_string());
        let routes: [(&str, Result<exmex::FlatEx<f64>, String>); 3] = [
            ("from_str", serde_json::from_str::<exmex::FlatEx<f64>>(&js).map_err(|x| x.to_string())),
            ("from_reader", serde_json::from_reader::<_, exmex::FlatEx<f64>>(js.as_bytes()).map_err(|x| x.to_string())),
            ("from_value", serde_json::from_value::<exmex::FlatEx<f64>>(serde_json::Value::String(ft.to_string())).map_err(|x| x.to_string())),
        ];
        for (what, r) in routes {
            match r {
                Ok(g) if g.unparse() == ft && g.var_names() == e.var_names() && g.eval(&vals).map_err(|x| x.msg().to_string()) == v0 => {}
                other => {
                    return Err(fail(
                        "C12/identity/f64-serde",
                        format!("serde round trip ({what}) of `{ft}` gives {:?}", other.map(|g| (g.unparse().to_string(), g.var_names().to_vec()))),
                        json!({"text": ft}),
                    ))
                }
            }
        }
    }
    const VT: [&str; 5] = ["x if y > 1 else [1, 2,3]", " true && {a\"b} || false", "to_int( x ) % 3", "[1.5,2].0 + {t\tt}", "fact 4 + x"];
    let vt = VT[t.choose(VT.len())];
    if let Ok(e) = exmex::parse_val::<i32, f64>(vt) {
        if e.unparse() != vt {
            return Err(fail("C12/identity/val", format!("parse_val(`{vt}`) prints `{}`", e.unparse()), json!({"text": vt})));
        }
        let js = serde_json::to_string(&e).unwrap();
        let routes: [(&str, Result<exmex::FlatExVal<i32, f64>, String>); 2] = [
            ("from_str", serde_json::from_str::<exmex::FlatExVal<i32, f64>>(&js).map_err(|x| x.to_string())),
            ("from_reader", serde_json::from_reader::<_, exmex::FlatExVal<i32, f64>>(js.as_bytes()).map_err(|x| x.to_string())),
        ];
        for (what, r) in routes {
            match r {
                Ok(g) if g.unparse() == vt && g.var_names() == e.var_names() => {}
                other => {
                    return Err(fail(
                        "C12/identity/val-serde",
                        format!("serde round trip ({what}) of `{vt}` gives {:?}", other.map(|g| g.unparse().to_string())),
                        json!({"text": vt}),
                    ))
                }
            }
        }
    }
    Ok(())
}

/// derived float expressions (derivatives, operator application) print text that parses back
fn derived_f64(tape: &[u32], st: &mut Stats) -> CaseResult {
    let mut t = Tape::new(tape);
    let cfg = CalcCfg { max_size: 7, nvars: 1 + t.choose(3), rational_only: false, nondiff_pct: 0, unary_pct: 30 };
    let size = 1 + t.choose(cfg.max_size);
    let tree = gen_ct(&mut t, &cfg, size);
    let mut used = vec![];
    ct_vars(&tree, &mut used);
    if used.is_empty() {
        st.excluded("expression without variables");
        return Ok(());
    }
    let text = render_ct(&tree, &mut t);
    let n = used.len();
    let (i, j) = (t.choose(n), t.choose(n));
    let order = 1 + t.choose(2);
    let deep_start = t.chance(50);
    let pts: Vec<Vec<f64>> = (0..3).map(|_| super::c05::gen_point(&mut t, n)).collect();
    let describe = |extra: &str| json!({"text": text, "wrt": [i, j], "order": order, "detail": extra});
    let senss: std::cell::RefCell<Vec<Option<f64>>> = std::cell::RefCell::new(vec![]);
    let res = guard(|| -> Result<(String, Vec<String>, Vec<f64>, Vec<String>), String> {
        let e = ex_msg(exmex::FlatEx::<f64>::parse(&text))?;
        let d1 = if deep_start {
            ex_msg(exmex::FlatEx::<f64>::from_deepex(ex_msg(ex_msg(DeepEx::<f64>::parse(&text))?.partial(i))?))?
        } else {
            ex_msg(e.clone().partial(i))?
        };
        let d = if order == 2 { ex_msg(d1.partial(j))? } else { d1 };
        let vals: Vec<f64> = pts.iter().map(|p| d.eval(p).unwrap_or(f64::NAN)).collect();
        // conditioning of the derived expression at the points (measured with its own evaluation)
        let fd = |q: &[f64]| d.eval(q).ok();
        for p in &pts {
            senss.borrow_mut().push(sensitivity(&fd, p));
        }
        let js = ex_msg(serde_json::to_string(&d).map_err(|e| exmex::ExError::new(&e.to_string())))?;
        Ok((d.unparse().to_string(), d.var_names().to_vec(), vals, vec![js]))
    });
    let (printed, names, vals, js) = match res {
        Err(p) => return Err(fail("C12/derived/panic", format!("`{text}` panics: {p}"), describe(""))),
        Ok(Err(_)) => {
            // no expression was produced (C05 judges whether differentiation may fail here)
            st.excluded("differentiation returned an error: no derived expression to print");
            return Ok(());
        }
        Ok(Ok(x)) => x,
    };
    if !float_text_reparseable(&printed) {
        st.excluded("printed literal in exponent / inf / NaN form (outside the property's quantifier)");
        return Ok(());
    }
    // known finding F12: variables that no longer occur cannot be carried by the text
    let vanished = names.iter().any(|nm| !printed.contains(&format!("{{{nm}}}")));
    if vanished {
        st.excluded("F12: a listed variable does not occur in the printed text");
        return Ok(());
    }
    st.class(&format!("order {order}"));
    if printed != text && st.nontrivial(&format!("{text}|{i}|{j}|{order}")) && st.want_sample() {
        st.sample(json!({"source": text, "printed": printed}));
    }
    let reparsed = guard(|| -> Result<(Vec<String>, Vec<f64>), String> {
        let g = ex_msg(exmex::FlatEx::<f64>::parse(&printed))?;
        ex_msg(DeepEx::<f64>::parse(&printed))?;
        Ok((g.var_names().to_vec(), pts.iter().map(|p| g.eval(p).unwrap_or(f64::NAN)).collect()))
    });
    match reparsed {
        Err(p) => Err(fail("C12/derived/reparse-panic", format!("printed `{printed}` panics: {p}"), describe(&printed))),
        Ok(Err(e)) => Err(fail("C12/derived/reparse-error", format!("printed `{printed}` (from `{text}`) does not parse back: {e}"), describe(&printed))),
        Ok(Ok((gn, gv))) => {
            if gn != names {
                return Err(fail("C12/derived/var-names", format!("printed `{printed}` parses back with variables {gn:?}, expected {names:?}"), describe(&printed)));
            }
            for (k, (a, b)) in vals.iter().zip(gv.iter()).enumerate() {
                // re-parsing may re-associate literal products (last-bit differences); values near a pole
                // or beyond 1e9 amplify those arbitrarily and are not judged
                if !(a.is_finite() && b.is_finite() && a.abs() < 1e9 && b.abs() < 1e9) {
                    continue;
                }
                let Some(sens) = senss.borrow().get(k).copied().flatten() else { continue };
                if !close_cond(*a, *b, 1e-9, sens) {
                    return Err(fail("C12/derived/value", format!("printed `{printed}` evaluates to {b} at {:?}, the expression itself to {a}", pts[k]), describe(&printed)));
                }
            }
            // serde
            match serde_json::from_str::<exmex::FlatEx<f64>>(&js[0]) {
                Ok(g) if g.unparse() == printed && g.var_names() == &names[..] => Ok(()),
                other => Err(fail(
                    "C12/derived/serde",
                    format!("serde round trip of `{printed}` gives {:?}", other.map(|g| (g.unparse().to_string(), g.var_names().to_vec()))),
                    describe(&printed),
                )),
            }
        }
    }
}

// ---------------------------------------------------------------------------------------------
// known findings F11, F12: listed inputs

fn n_known(_: Tier) -> u64 {
    4
}
fn known_print_findings(i: u64, st: &mut Stats) -> CaseResult {
    match i {
        0 => {
            // F11: binary `|` followed by unary `||`
            let table = vec![OpSpec::bin("|", 1, false), OpSpec::un("||")];
            set_table(&table);
            let text = "1 | ||(v)";
            st.nontrivial(text);
            st.sample(json!({"table": describe_table(&table), "text": text, "note": "listed input of known finding F11"}));
            let d = D::parse(text).map_err(|e| fail("C12/known/setup", e.msg().to_string(), json!({})))?;
            let printed = leak(d.unparse().to_string());
            let ok = match F::parse(printed) {
                Ok(g) => g.var_names() == d.var_names() && g.eval(&[Term::Atom(0)]).ok() == d.eval(&[Term::Atom(0)]).ok(),
                Err(_) => false,
            };
            if ok {
                Ok(())
            } else {
                Err(fail("F11-unparse-concatenation", format!("DeepEx of `{text}` prints `{printed}`, which does not parse back to the same expression"), json!({"text": text, "printed": printed})))
            }
        }
        1 => {
            let table = vec![OpSpec::dual("=", 1, false), OpSpec::bin("==", 0, false)];
            set_table(&table);
            let text = "{a} = =({b})";
            st.nontrivial(text);
            let d = D::parse(text).map_err(|e| fail("C12/known/setup", e.msg().to_string(), json!({})))?;
            let printed = leak(d.unparse().to_string());
            let vals = [Term::Atom(0), Term::Atom(1)];
            let ok = match F::parse(printed) {
                Ok(g) => g.var_names() == d.var_names() && g.eval(&vals).ok() == d.eval(&vals).ok(),
                Err(_) => false,
            };
            if ok {
                Ok(())
            } else {
                Err(fail("F11-unparse-concatenation", format!("DeepEx of `{text}` prints `{printed}`, which does not parse back to the same expression"), json!({"text": text, "printed": printed})))
            }
        }
        2 => {
            // F12: derivative keeps a variable that its text cannot carry
            let text = "y";
            st.nontrivial("F12a");
            st.sample(json!({"text": "FlatEx::<f64>::parse(\"y\").partial(0)", "note": "listed input of known finding F12"}));
            let d = exmex::FlatEx::<f64>::parse(text).and_then(|e| e.partial(0)).map_err(|e| fail("C12/known/setup", e.msg().to_string(), json!({})))?;
            let printed = d.unparse().to_string();
            let g = exmex::FlatEx::<f64>::parse(&printed);
            let js = serde_json::to_string(&d).unwrap();
            let s = serde_json::from_str::<exmex::FlatEx<f64>>(&js);
            let ok = matches!((&g, &s), (Ok(g), Ok(s)) if g.var_names() == d.var_names() && s.var_names() == d.var_names());
            if ok {
                Ok(())
            } else {
                Err(fail("F12-vanished-variables", format!("derivative of `y` w.r.t. y lists {:?} but prints `{printed}`; parsing back / deserialising gives {:?}", d.var_names(), g.map(|g| g.var_names().to_vec())), json!({"printed": printed})))
            }
        }
        _ => {
            st.nontrivial("F12b");
            let r = (|| -> exmex::ExResult<(Vec<String>, String)> {
                let p = (DeepEx::<f64>::parse("x")? * DeepEx::<f64>::parse("0")?)?;
                Ok((p.var_names().to_vec(), p.unparse().to_string()))
            })()
            .map_err(|e| fail("C12/known/setup", e.msg().to_string(), json!({})))?;
            let g = exmex::FlatEx::<f64>::parse(&r.1).map(|g| g.var_names().to_vec());
            if g.as_ref().ok() == Some(&r.0) {
                Ok(())
            } else {
                Err(fail("F12-vanished-variables", format!("DeepEx x*0 lists {:?} but prints `{}`; parsing back gives {g:?}", r.0, r.1), json!({"printed": r.1})))
            }
        }
    }
}

/// entry for the coverage-guided fuzz target (the bytes are the choice tape)
pub fn fuzz_entry(tape: &[u32], st: &mut Stats) -> CaseResult {
    flat_text_identity(tape, st)
}

pub fn def() -> PropDef {
    PropDef {
        id: "C12",
        level_text: "every expression reachable by parse + generated sequences of conversions, operator applications and substitutions over the term algebra (all values print as literals) is printed, parsed back by both parsers and compared (variables, symbolic value), and serialised/deserialised; parsed flat expressions must print their source text exactly; derived float expressions (derivatives of first and second order) are printed and parsed back numerically",
        assumptions: vec![
            "tables in which a binary name directly followed by a unary name re-tokenises differently are excluded from the printing checks and counted (known finding F11)",
            "float literals printed in exponent / inf / NaN form are outside the property's quantifier (counted)",
            "expressions that list a variable not occurring in their text are excluded from the float part and counted (known finding F12)",
        ],
        subs: vec![
            SubCheck {
                name: "print_histories",
                rule: "tape -> table x pool x 1-4 steps (operate_unary/binary, subs, conversions, helper methods); after every step deep.unparse() and flat.unparse() parse back (FlatEx and DeepEx) with the same variables and value, and serde_json round trip preserves text, variables and value; non-trivial = >=1 step on a printable table; distinct by history",
                kind: Kind::Tape { len: 500, quick: 25_000, thorough: 1_000_000, f: print_histories },
            },
            SubCheck {
                name: "print_histories_towers",
                rule: "as print_histories with operands in which about one node in twelve carries a tower of 14-43 unary operators (a node stores 16 inline); non-trivial as print_histories",
                kind: Kind::Tape { len: 1100, quick: 6250, thorough: 250000, f: print_histories_towers },
            },
            SubCheck {
                name: "flat_text_identity",
                rule: "well-formed renderings with random spacing and token-soup strings: FlatEx::parse(t).unparse() == t and Display == t for parse and parse_wo_compile; default float parser + serde on fixed spellings; non-trivial = accepted text with leading/trailing blanks",
                kind: Kind::Tape { len: 450, quick: 30_000, thorough: 1_500_000, f: flat_text_identity },
            },
            SubCheck {
                name: "derived_f64",
                rule: "tape -> differentiable tree x first/second derivative (flat or via deep) -> printed text parses back with the same variables, the same values at 3 points (1e-9 relative, finite values below 1e9) and survives serde; non-trivial = printed text differs from the source",
                kind: Kind::Tape { len: 220, quick: 15_000, thorough: 600_000, f: derived_f64 },
            },
            SubCheck {
                name: "known_print_findings",
                rule: "listed inputs of known findings F11 (operator names concatenated: `1 | ||(v)`, `{a} = =({b})`) and F12 (derivative of `y`, deep `x*0`)",
                kind: Kind::Indexed { n: n_known, f: known_print_findings, exhaustive: false },
            },
            crate::fuzzdrv::differential_subcheck(),
        ],
    }
}
