//! C13 — Operator names match exactly; numbers, signs and braces tokenise as documented.
use super::PropDef;
use crate::gen::*;
use crate::lexer::{ref_lex, term_literal, LTok};
use crate::runner::*;
use crate::tape::Tape;
use crate::tcase::*;
use crate::term::{describe_table, set_table, OpSpec, Term, CONST_BASE};
use exmex::prelude::*;
use serde_json::json;

const UN_NAMES: [&str; 18] =
    ["lo", "log", "log2", "log10", "sin", "sinh", "s", "f", "fa", "neg", "αβ", "_u", "S", "s1n", "f1", "σ", "exp", "Σ"];
const CONST_NAMES: [&str; 10] = ["PI", "E", "e", "τ", "TAU", "T", "c0", "pi_", "π", "Ω"];
const ALPHA_BINS: [&str; 4] = ["max", "o", "mod", "atan2"];
/// (binary operator, longer unary operator / constant starting with its name, is constant)
const LONGER_THAN_BIN: [(&str, &str, bool); 4] = [("max", "maxi", false), ("o", "oo", true), ("mod", "modulo", false), ("atan2", "atan2d", false)];
const EXT: [&str; 22] =
    ["a", "Z", "0", "9", "_", "α", "Ω", "Δ", "Σ", "x1", "10", "2x", "h", "_a", "β", "ω", "Α", "e", "E", "x", "4", "π"];

fn lex_table(t: &mut Tape) -> Vec<OpSpec> {
    let mut table = vec![OpSpec::dual("+", 1, false), OpSpec::dual("-", 1, false), OpSpec::bin("*", 2, false)];
    for u in UN_NAMES {
        if t.chance(45) {
            table.push(OpSpec::un(u));
        }
    }
    for c in CONST_NAMES {
        if t.chance(40) && !table.iter().any(|o| o.name == c) {
            table.push(OpSpec::constant(c));
        }
    }
    for b in ALPHA_BINS {
        if t.chance(15) {
            table.push(OpSpec::bin(b, 0, false));
            // a unary operator or constant whose name continues the binary operator's name
            for (short, long, constant) in LONGER_THAN_BIN {
                if short == b && t.chance(60) {
                    table.push(if constant { OpSpec::constant(long) } else { OpSpec::un(long) });
                }
            }
        }
    }
    // symbolic prefix families
    if t.chance(50) {
        for (n, p) in [("<", 0), ("<=", 0), ("<<", 3), ("&", 3), ("&&", 0), ("=", 0), ("==", 0), ("!=", 0)] {
            if t.chance(60) {
                table.push(OpSpec::bin(n, p, false));
            }
        }
        if t.chance(50) {
            table.push(OpSpec::un("!"));
        }
    }
    // order must not matter
    let n = table.len();
    for i in (1..n).rev() {
        let j = t.choose(i + 1);
        table.swap(i, j);
    }
    table
}

fn idx(table: &[OpSpec], name: &str) -> usize {
    table.iter().position(|o| o.name == name).unwrap()
}

/// Evaluates `text` with all parsers; returns (var_names, value) of each form.
fn forms(text: &str, n_atoms: usize) -> Result<Vec<(&'static str, Vec<String>, Term)>, String> {
    let vals: Vec<Term> = (0..n_atoms).map(|i| Term::Atom(i as u32)).collect();
    let mut out = vec![];
    let f = ex_msg(F::parse(text))?;
    if f.var_names().len() != n_atoms {
        return Ok(vec![("flat", f.var_names().to_vec(), Term::Poison)]);
    }
    out.push(("flat", f.var_names().to_vec(), ex_msg(f.eval(&vals))?));
    let w = ex_msg(F::parse_wo_compile(text))?;
    out.push(("flat_wo_compile", w.var_names().to_vec(), ex_msg(w.eval(&vals))?));
    let d = ex_msg(D::parse(text))?;
    out.push(("deep", d.var_names().to_vec(), ex_msg(d.eval(&vals))?));
    Ok(out)
}

fn expect(
    family: &str,
    text: &str,
    table: &[OpSpec],
    want_names: &[String],
    want: &Term,
) -> CaseResult {
    let describe = || json!({"text": text, "table": describe_table(table), "family": family, "expected_vars": want_names, "expected": format!("{want:?}")});
    match guard(|| forms(text, want_names.len())) {
        Err(p) => Err(fail(&format!("C13/{family}/panic"), format!("`{text}` panics: {p}"), describe())),
        Ok(Err(e)) => Err(fail(&format!("C13/{family}/rejected"), format!("`{text}` should tokenise as {want:?} over {want_names:?} but is rejected: {e}"), describe())),
        Ok(Ok(list)) => {
            for (form, names, v) in list {
                if names != want_names {
                    return Err(fail(
                        &format!("C13/{family}/{form}/var-names"),
                        format!("`{text}`: variables {names:?}, documented tokenisation gives {want_names:?}"),
                        describe(),
                    ));
                }
                if &v != want {
                    return Err(fail(
                        &format!("C13/{family}/{form}/wrong-value"),
                        format!("`{text}` denotes {v:?}, documented tokenisation gives {want:?}"),
                        describe(),
                    ));
                }
            }
            Ok(())
        }
    }
}

fn expect_err(family: &str, text: &str, table: &[OpSpec], why: &str) -> CaseResult {
    let describe = || json!({"text": text, "table": describe_table(table), "family": family, "expected": format!("error: {why}")});
    let r = guard(|| (F::parse(text).is_ok(), F::parse_wo_compile(text).is_ok(), D::parse(text).is_ok()));
    match r {
        Err(p) => Err(fail(&format!("C13/{family}/panic"), format!("`{text}` panics: {p}"), describe())),
        Ok((a, b, c)) => {
            if a || b || c {
                Err(fail(&format!("C13/{family}/accepted"), format!("`{text}` must be rejected ({why}) but is accepted (flat {a}, unfolded {b}, deep {c})"), describe()))
            } else {
                Ok(())
            }
        }
    }
}

fn is_single_variable(blob: &str, table: &[OpSpec]) -> Option<bool> {
    if !is_identifier(blob) {
        return None;
    }
    if table.iter().any(|o| o.name == blob) {
        return Some(false);
    }
    // carve-out of the property: binary operators are matched without look-ahead
    if table.iter().any(|o| o.bin.is_some() && is_alpha_name(o.name) && blob.starts_with(o.name)) {
        return None;
    }
    Some(true)
}

fn names(tape: &[u32], st: &mut Stats) -> CaseResult {
    let mut t = Tape::new(tape);
    let table = lex_table(&mut t);
    set_table(&table);
    let star = idx(&table, "*");
    let named: Vec<&OpSpec> = table.iter().filter(|o| (o.unary && o.bin.is_none()) || o.constant).collect();
    if named.is_empty() {
        st.excluded("table without unary operator or constant");
        return Ok(());
    }
    let base = *t.pick(&named);
    let family = t.choose(6);
    match family {
        0 | 1 => {
            // extension of a unary/constant name by 1-3 identifier characters => one variable
            let k = 1 + t.choose(3);
            let mut blob = base.name.to_string();
            for _ in 0..k {
                blob.push_str(*t.pick(&EXT));
            }
            match is_single_variable(&blob, &table) {
                None => {
                    st.excluded("identifier starts with an alphabetic binary operator name (carved out) or is no identifier");
                    Ok(())
                }
                Some(false) => {
                    st.excluded("extension is itself a table name");
                    Ok(())
                }
                Some(true) => {
                    st.class("extension of an operator/constant name is a variable");
                    let text = match t.choose(4) {
                        0 => format!("{blob} * 2"),
                        1 => format!("{blob}*2"),
                        2 => format!("({blob})*2"),
                        _ => format!(" {blob}  * 2"),
                    };
                    if st.nontrivial(&format!("{text}|{}", describe_table(&table))) && st.want_sample() {
                        st.sample(json!({"text": text, "table": describe_table(&table), "expected": format!("variable {blob}")}));
                    }
                    expect("extension", &text, &table, &[blob.clone()], &Term::bin(star, Term::Atom(0), Term::lit("2")))
                }
            }
        }
        2 => {
            // truncation / concatenation of names
            let other = *t.pick(&named);
            let blob = if t.chance(50) && base.name.chars().count() > 1 {
                let cut = 1 + t.choose(base.name.chars().count() - 1);
                base.name.chars().take(cut).collect::<String>()
            } else {
                format!("{}{}", base.name, other.name)
            };
            match is_single_variable(&blob, &table) {
                Some(true) => {
                    st.class("truncation/concatenation of names is a variable");
                    let text = format!("{blob} * 2");
                    st.nontrivial(&format!("{text}|{}", describe_table(&table)));
                    expect("truncation-concatenation", &text, &table, &[blob.clone()], &Term::bin(star, Term::Atom(0), Term::lit("2")))
                }
                _ => {
                    st.excluded("truncation/concatenation is a table name, not an identifier, or carved out");
                    Ok(())
                }
            }
        }
        3 if base.unary => {
            // the exact name followed by a separator applies the operator
            let u = idx(&table, base.name);
            let minus = idx(&table, "-");
            let (text, want, nvars): (String, Term, usize) = match t.choose(7) {
                0 => (format!("{} 4", base.name), Term::un(u, Term::lit("4")), 0),
                1 => (format!("{}(4)", base.name), Term::un(u, Term::lit("4")), 0),
                2 => (format!("{}{{x}}", base.name), Term::un(u, Term::Atom(0)), 1),
                3 => (format!("{} -4", base.name), Term::un(u, Term::un(minus, Term::lit("4"))), 0),
                4 => (format!("{}-4", base.name), Term::un(u, Term::un(minus, Term::lit("4"))), 0),
                5 => (format!("3 - {} 4", base.name), Term::bin(minus, Term::lit("3"), Term::un(u, Term::lit("4"))), 0),
                _ => (format!("{} (  {{x}})", base.name), Term::un(u, Term::Atom(0)), 1),
            };
            // a longer table name may legitimately match here (e.g. `log` + `2`?): consult the reference lexer
            let lexed = ref_lex(&text, &table, &term_literal);
            let first_is_base = matches!(lexed.as_ref().ok().and_then(|l| l.iter().find(|x| matches!(x, LTok::Op(_)))), Some(LTok::Op(i)) if table[*i].name == base.name || text.starts_with('3'));
            if !first_is_base {
                st.excluded("a longer table name matches at this position");
                return Ok(());
            }
            st.class("exact name followed by a separator applies the operator");
            let wn: Vec<String> = if nvars == 1 { vec!["x".to_string()] } else { vec![] };
            st.nontrivial(&format!("{text}|{}", describe_table(&table)));
            expect("application", &text, &table, &wn, &want)
        }
        3 | 4 if base.constant => {
            let c = Term::Atom(CONST_BASE + idx(&table, base.name) as u32);
            let plus = idx(&table, "+");
            let (text, want) = match t.choose(4) {
                0 => (format!("{} + 1", base.name), Term::bin(plus, c, Term::lit("1"))),
                1 => (format!("{}+1", base.name), Term::bin(plus, c, Term::lit("1"))),
                2 => (format!("({})*2", base.name), Term::bin(star, c, Term::lit("2"))),
                _ => (format!("2*{}", base.name), Term::bin(star, Term::lit("2"), c)),
            };
            st.class("exact constant name stands for its value");
            st.nontrivial(&format!("{text}|{}", describe_table(&table)));
            expect("constant", &text, &table, &[], &want)
        }
        _ => {
            // longest operator name wins
            let cands: Vec<(&str, &str)> = vec![("log", "log2"), ("log", "log10"), ("lo", "log"), ("sin", "sinh"), ("s", "sin"), ("f", "fa"), ("f", "f1"), ("<", "<="), ("<", "<<"), ("&", "&&"), ("=", "=="), ("e", "exp"), ("E", "exp"), ("max", "maxi"), ("o", "oo"), ("mod", "modulo"), ("atan2", "atan2d")];
            let present: Vec<&(&str, &str)> =
                cands.iter().filter(|(a, b)| table.iter().any(|o| o.name == *a) && table.iter().any(|o| o.name == *b)).collect();
            if present.is_empty() {
                st.excluded("no prefix-related pair of names in this table");
                return Ok(());
            }
            let (_short, long) = **t.pick(&present);
            let li = idx(&table, long);
            let spec = &table[li];
            // any even longer name starting with `long`?
            if table.iter().any(|o| o.name != long && o.name.starts_with(long)) && spec.unary {
                // e.g. log vs log10 with argument starting with a digit: keep the argument non-extending
            }
            st.class("two table names, one a prefix of the other, both applicable");
            let (text, want, wn): (String, Term, Vec<String>) = if spec.unary {
                match t.choose(3) {
                    0 => (format!("{long}(7)"), Term::un(li, Term::lit("7")), vec![]),
                    1 => (format!("{long} {{x}}"), Term::un(li, Term::Atom(0)), vec!["x".into()]),
                    _ => (format!("{long} (7)"), Term::un(li, Term::lit("7")), vec![]),
                }
            } else if spec.constant {
                (format!("{long}*2"), Term::bin(star, Term::Atom(CONST_BASE + li as u32), Term::lit("2")), vec![])
            } else {
                match t.choose(3) {
                    0 => (format!("{{x}}{long}{{y}}"), Term::bin(li, Term::Atom(0), Term::Atom(1)), vec!["x".into(), "y".into()]),
                    1 => (format!("7{long}3"), Term::bin(li, Term::lit("7"), Term::lit("3")), vec![]),
                    _ => (format!("{{x}} {long} 3"), Term::bin(li, Term::Atom(0), Term::lit("3")), vec!["x".into()]),
                }
            };
            if table.iter().any(|o| o.name != long && o.name.starts_with(long)) {
                // an even longer name exists; the reference lexer decides whether it applies here
                let lexed = ref_lex(&text, &table, &term_literal).ok();
                let uses_long = lexed.map(|l| l.iter().any(|x| matches!(x, LTok::Op(i) if *i == li))).unwrap_or(false);
                if !uses_long {
                    st.excluded("an even longer name applies");
                    return Ok(());
                }
            }
            st.nontrivial(&format!("{text}|{}", describe_table(&table)));
            expect("longest-match", &text, &table, &wn, &want)
        }
    }
}

/// the same rules on the default float table (f64): sin4, PI5, Erwin, expx are variables
fn names_float(tape: &[u32], st: &mut Stats) -> CaseResult {
    let mut t = Tape::new(tape);
    let table = crate::fixed::float_table();
    let named: Vec<&OpSpec> = table.iter().filter(|o| (o.unary && o.bin.is_none()) || o.constant).collect();
    let base = *t.pick(&named);
    let k = 1 + t.choose(2);
    let mut blob = base.name.to_string();
    for _ in 0..k {
        blob.push_str(*t.pick(&EXT));
    }
    match is_single_variable(&blob, &table) {
        Some(true) => {}
        _ => {
            st.excluded("extension is a table name or carved out");
            return Ok(());
        }
    }
    let text = format!("{blob} * 2 + 1");
    st.class("extension of a default operator/constant name");
    if st.nontrivial(&text) && st.want_sample() {
        st.sample(json!({"text": text, "expected": format!("variable {blob}")}));
    }
    let describe = || json!({"text": text, "expected_vars": [blob]});
    let res = guard(|| -> Result<Vec<(Vec<String>, f64)>, String> {
        let f = ex_msg(exmex::FlatEx::<f64>::parse(&text))?;
        let d = ex_msg(exmex::DeepEx::<f64>::parse(&text))?;
        let fv = if f.var_names().len() == 1 { ex_msg(f.eval(&[1.75]))? } else { f64::NAN };
        let dv = if d.var_names().len() == 1 { ex_msg(d.eval(&[1.75]))? } else { f64::NAN };
        Ok(vec![(f.var_names().to_vec(), fv), (d.var_names().to_vec(), dv)])
    });
    match res {
        Err(p) => Err(fail("C13/float/panic", format!("`{text}` panics: {p}"), describe())),
        Ok(Err(e)) => Err(fail("C13/float/rejected", format!("`{text}`: `{blob}` is a variable but the text is rejected: {e}"), describe())),
        Ok(Ok(l)) => {
            for (names, v) in l {
                if names != vec![blob.clone()] || v != 4.5 {
                    return Err(fail("C13/float/not-a-variable", format!("`{text}`: variables {names:?}, value {v} at 1.75; `{blob}` must be one variable (value 4.5)"), describe()));
                }
            }
            Ok(())
        }
    }
}

fn literals_and_braces(tape: &[u32], st: &mut Stats) -> CaseResult {
    let mut t = Tape::new(tape);
    let table = vec![OpSpec::dual("+", 1, false), OpSpec::dual("-", 1, false), OpSpec::bin("*", 2, false), OpSpec::un("sin")];
    set_table(&table);
    let star = 2;
    let digits = |t: &mut Tape, n: usize| -> String { (0..n).map(|_| char::from(b'0' + t.choose(10) as u8)).collect() };
    match t.choose(4) {
        0 => {
            // accepted spellings
            let (a, b) = (1 + t.choose(4), 1 + t.choose(4));
            let lit = match t.choose(4) {
                0 => digits(&mut t, a),
                1 => format!("{}.", digits(&mut t, a)),
                2 => format!(".{}", digits(&mut t, b)),
                _ => format!("{}.{}", digits(&mut t, a), digits(&mut t, b)),
            };
            st.class("accepted literal spelling");
            let text = match t.choose(3) {
                0 => format!("{lit}*{{x}}"),
                1 => format!("{{x}}*{lit}"),
                _ => format!("{{x}} * ( {lit} )"),
            };
            let want = if text.starts_with('{') { Term::bin(star, Term::Atom(0), Term::lit(&lit)) } else { Term::bin(star, Term::lit(&lit), Term::Atom(0)) };
            if st.nontrivial(&text) && st.want_sample() {
                st.sample(json!({"text": text, "literal": lit}));
            }
            expect("literal", &text, &table, &["x".to_string()], &want)?;
            // and as a number of the default float type
            let v: f64 = lit.parse().unwrap();
            let ft = format!("{lit} + 0");
            match guard(|| exmex::eval_str::<f64>(&ft)) {
                Ok(Ok(x)) if x == v => Ok(()),
                other => Err(fail("C13/literal/f64", format!("eval_str(`{ft}`) = {other:?}, expected {v}"), json!({"text": ft}))),
            }
        }
        1 => {
            // rejected spellings
            let (a, b, c) = (1 + t.choose(3), 1 + t.choose(3), 1 + t.choose(3));
            let lit = match t.choose(5) {
                0 => ".".to_string(),
                1 => "..".to_string(),
                2 => format!("{}.{}.{}", digits(&mut t, a), digits(&mut t, b), digits(&mut t, c)),
                3 => format!("{}..{}", digits(&mut t, a), digits(&mut t, b)),
                _ => format!("{}.{}.", digits(&mut t, a), digits(&mut t, b)),
            };
            st.class("rejected literal spelling");
            let text = if t.chance(50) { format!("{lit}*{{x}}") } else { format!("{{x}}*{lit}") };
            st.nontrivial(&text);
            expect_err("bad-literal", &text, &table, "not digits with at most one dot")
        }
        2 => {
            // anything in braces is one variable
            const PIECES: [&str; 24] = ["x", " ", "1", "+", "-", "*", "(", ")", ",", "sin", "{", "👍", "é", "\t", ".", "[", "]", "α", "y z", "2.5", "\"", "\\", "'", "#"];
            let n = t.choose(6);
            let mut name = String::new();
            for _ in 0..n {
                name.push_str(*t.pick(&PIECES));
            }
            st.class("arbitrary text in braces");
            let variant = t.choose(3);
            let v = Term::Atom(0);
            let (text, want) = match variant {
                0 => (format!("{{{name}}}*2"), Term::bin(star, v, Term::lit("2"))),
                1 => (format!("2*sin({{{name}}})"), Term::bin(star, Term::lit("2"), Term::un(3, v))),
                _ => (
                    format!("2 * {{{name}}} * {{{name}}}"),
                    Term::bin(star, Term::bin(star, Term::lit("2"), Term::Atom(0)), Term::Atom(0)),
                ),
            };
            if st.nontrivial(&text) && st.want_sample() {
                st.sample(json!({"text": text, "variable": name}));
            }
            expect("braces", &text, &table, &[name.clone()], &want)
        }
        _ => {
            // signs: unary exactly at the start, after an operator, after an opening parenthesis
            let (plus, minus) = (0usize, 1usize);
            let chain_len = 1 + t.choose(4);
            let chain: Vec<usize> = (0..chain_len).map(|_| if t.chance(50) { plus } else { minus }).collect();
            let chain_text: String = chain.iter().map(|o| if *o == plus { "+" } else { "-" }).collect::<Vec<_>>().join(if t.chance(50) { "" } else { " " });
            let apply_chain = |mut v: Term| {
                for o in chain.iter().rev() {
                    v = Term::un(*o, v);
                }
                v
            };
            st.class("sign chain");
            let (text, want, wn): (String, Term, Vec<String>) = match t.choose(5) {
                0 => (format!("{chain_text}{{x}}"), apply_chain(Term::Atom(0)), vec!["x".into()]),
                1 => (format!("({chain_text}{{x}})*2"), Term::bin(star, apply_chain(Term::Atom(0)), Term::lit("2")), vec!["x".into()]),
                2 => (format!("3*{chain_text}{{x}}"), Term::bin(star, Term::lit("3"), apply_chain(Term::Atom(0))), vec!["x".into()]),
                3 => {
                    // after an operand the first sign is binary, the rest unary
                    let first = chain[0];
                    let rest = &chain[1..];
                    let mut v = Term::Atom(0);
                    for o in rest.iter().rev() {
                        v = Term::un(*o, v);
                    }
                    (format!("5{chain_text}{{x}}"), Term::bin(first, Term::lit("5"), v), vec!["x".into()])
                }
                _ => {
                    let first = chain[0];
                    let rest = &chain[1..];
                    let mut v = Term::Atom(0);
                    for o in rest.iter().rev() {
                        v = Term::un(*o, v);
                    }
                    (format!("(5){chain_text}{{x}}"), Term::bin(first, Term::lit("5"), v), vec!["x".into()])
                }
            };
            if st.nontrivial(&text) && st.want_sample() {
                st.sample(json!({"text": text}));
            }
            expect("signs", &text, &table, &wn, &want)
        }
    }
}

pub fn def() -> PropDef {
    PropDef {
        id: "C13",
        level_text: "targeted generated families over tables with prefix-related names (and the default float table): extensions/truncations/concatenations of operator and constant names, exact names followed by separators, longest-match pairs, literal spellings, arbitrary braced text, sign chains; expectations from the documented lexical rules",
        assumptions: vec![
            "identifiers that start with the name of an alphabetic *binary* operator are carved out (binary operators are matched without look-ahead)",
            "expected values are exact terms over the free term algebra",
        ],
        subs: vec![
            SubCheck {
                name: "names",
                rule: "tape -> table with prefix chains (lo/log/log2/log10, sin/sinh/s, f/fa/f1, e/exp, Greek names, < <= << & && = == != !) x family (extension by 1-3 identifier characters incl. Greek upper/lower case, digits, underscore | truncation/concatenation | exact name + separator | constant | longest match); non-trivial = every judged case (an identifier with an operator name as proper prefix, or two prefix-related names applicable); distinct by text+table",
                kind: Kind::Tape { len: 200, quick: 80_000, thorough: 3_000_000, f: names },
            },
            SubCheck {
                name: "names_float",
                rule: "default float table: every unary operator/constant name extended by 1-2 identifier characters is one variable (FlatEx<f64>, DeepEx<f64>)",
                kind: Kind::Tape { len: 40, quick: 20_000, thorough: 500_000, f: names_float },
            },
            SubCheck {
                name: "literals_and_braces",
                rule: "literal spellings d+, d+., .d+, d+.d+ accepted with exactly that text; d.d.d, ., .., d..d rejected; arbitrary text in braces (spaces, operators, parentheses, unicode, control characters) is one variable; sign chains at the start, after '(' and after an operator are unary, after an operand or ')' the first sign is binary",
                kind: Kind::Tape { len: 60, quick: 40_000, thorough: 1_500_000, f: literals_and_braces },
            },
        ],
    }
}
