//! C14 — Operands are tracked correctly for every application order and size.
use super::PropDef;
use crate::runner::*;
use crate::tape::Tape;
use crate::tcase::*;
use crate::term::{describe_table, set_table, OpSpec, Term};
use exmex::prelude::*;
use serde_json::json;
use std::collections::HashMap;

const OP_NAMES: [&str; 64] = [
    "+", "-", "*", "/", "^", "%", "&", "|", "<", "=", "~", "!", "@", "#", "$", "?", ":", ";", "'", "\\", "aa",
    "bb", "cc", "dd", "ee", "ff", "gg", "hh", "ii", "jj", "kk", "ll", "mm", "nn", "oo", "pp", "qq", "rr", "ss",
    "tt", "uu", "vv", "ww", "xx", "yy", "zz", "AA", "BB", "CC", "DD", "EE", "FF", "GG", "HH", "II", "JJ", "KK",
    "LL", "MM", "NN", "OO", "PP", "QQ", "RR",
];

#[derive(Clone, Debug)]
pub enum Item {
    Var(u32),
    Lit(String),
    Sub(Group),
}
#[derive(Clone, Debug)]
pub struct Group {
    pub items: Vec<Item>,
    pub ops: Vec<usize>,
}

fn var_name(i: u32) -> String {
    format!("u{i:04}")
}

impl Group {
    fn render(&self, table: &[OpSpec], out: &mut String) {
        for (i, it) in self.items.iter().enumerate() {
            if i > 0 {
                out.push(' ');
                out.push_str(table[self.ops[i - 1]].name);
                out.push(' ');
            }
            match it {
                Item::Var(v) => {
                    out.push('{');
                    out.push_str(&var_name(*v));
                    out.push('}');
                }
                Item::Lit(s) => out.push_str(s),
                Item::Sub(g) => {
                    out.push('(');
                    g.render(table, out);
                    out.push(')');
                }
            }
        }
    }
    /// Index-free list model: repeatedly merge the pair joined by the operator of highest
    /// priority, the leftmost one among equals; groups in parentheses first.
    fn reduce(&self, table: &[OpSpec]) -> Term {
        let mut vals: Vec<Term> = self
            .items
            .iter()
            .map(|it| match it {
                Item::Var(v) => Term::Atom(*v),
                Item::Lit(s) => Term::Lit(s.clone()),
                Item::Sub(g) => g.reduce(table),
            })
            .collect();
        let mut ops: Vec<usize> = self.ops.clone();
        while !ops.is_empty() {
            let mut best = 0;
            for j in 1..ops.len() {
                if table[ops[j]].bin.unwrap().0 > table[ops[best]].bin.unwrap().0 {
                    best = j;
                }
            }
            let b = vals.remove(best + 1);
            let a = std::mem::replace(&mut vals[best], Term::Poison);
            vals[best] = Term::bin(ops[best], a, b);
            ops.remove(best);
        }
        vals.pop().unwrap()
    }
    fn leaves(&self, vars: &mut Vec<u32>, n: &mut usize) {
        for it in &self.items {
            match it {
                Item::Var(v) => {
                    vars.push(*v);
                    *n += 1
                }
                Item::Lit(_) => *n += 1,
                Item::Sub(g) => g.leaves(vars, n),
            }
        }
    }
}

fn leaf_multiset(t: &Term, out: &mut HashMap<String, usize>) {
    match t {
        Term::Lit(s) => *out.entry(format!("L{s}")).or_insert(0) += 1,
        Term::Atom(a) => *out.entry(format!("A{a}")).or_insert(0) += 1,
        Term::Un(_, a) => leaf_multiset(a, out),
        Term::Bin(_, a, b) => {
            leaf_multiset(a, out);
            leaf_multiset(b, out)
        }
        Term::Poison | Term::Moved => *out.entry("POISON".into()).or_insert(0) += 1,
    }
}

pub fn check_chain(table: &[OpSpec], g: &Group, what: &str, conversions: bool) -> CaseResult {
    set_table(table);
    let mut text = String::new();
    g.render(table, &mut text);
    let refv = g.reduce(table);
    let mut vars = vec![];
    let mut n_operands = 0;
    g.leaves(&mut vars, &mut n_operands);
    vars.sort();
    vars.dedup();
    let vals: Vec<Term> = vars.iter().map(|v| Term::Atom(*v)).collect();
    let describe = |got: &str| {
        json!({"text": text.chars().take(2000).collect::<String>(), "operands": n_operands, "table": describe_table(table), "order": what, "got": got.chars().take(2000).collect::<String>(), "expected": format!("{refv:?}").chars().take(2000).collect::<String>()})
    };
    let text_ref: &str = &text;
    let forms: [(&str, Box<dyn Fn() -> Result<Term, String> + '_>); 10] = [
        ("flat", Box::new(|| ex_msg(ex_msg(F::parse(text_ref))?.eval(&vals)))),
        ("flat_wo_compile", Box::new(|| ex_msg(ex_msg(F::parse_wo_compile(text_ref))?.eval(&vals)))),
        ("flat_eval_vec", Box::new(|| ex_msg(ex_msg(F::parse(text_ref))?.eval_vec(vals.clone())))),
        (
            "flat_wo_compile_eval_iter",
            Box::new(|| ex_msg(ex_msg(F::parse_wo_compile(text_ref))?.eval_iter(vals.clone().into_iter()))),
        ),
        ("deep", Box::new(|| ex_msg(ex_msg(D::parse(text_ref))?.eval(&vals)))),
        (
            "flat_to_deep",
            Box::new(|| ex_msg(ex_msg(ex_msg(F::parse_wo_compile(text_ref))?.to_deepex())?.eval(&vals))),
        ),
        (
            "flat_compiled_to_deep",
            Box::new(|| ex_msg(ex_msg(ex_msg(F::parse(text_ref))?.to_deepex())?.eval(&vals))),
        ),
        (
            "deep_to_flat",
            Box::new(|| ex_msg(ex_msg(F::from_deepex(ex_msg(D::parse(text_ref))?))?.eval(&vals))),
        ),
        (
            // two and a half round trips: every conversion re-encodes the nesting in the priorities
            "flat_to_deep_to_flat_to_deep_to_flat",
            Box::new(|| {
                let f = ex_msg(F::parse(text_ref))?;
                let f = ex_msg(F::from_deepex(ex_msg(f.to_deepex())?))?;
                let f = ex_msg(F::from_deepex(ex_msg(f.to_deepex())?))?;
                ex_msg(f.eval(&vals))
            }),
        ),
        (
            "deep_to_flat_to_deep_to_flat_to_deep",
            Box::new(|| {
                let d = ex_msg(D::parse(text_ref))?;
                let d = ex_msg(ex_msg(F::from_deepex(d))?.to_deepex())?;
                let d = ex_msg(ex_msg(F::from_deepex(d))?.to_deepex())?;
                ex_msg(d.eval(&vals))
            }),
        ),
    ];
    for (label, f) in forms.iter() {
        if n_operands > 1000 && !label.starts_with("flat") {
            continue;
        }
        if label.contains("to_flat_to") && n_operands > 300 {
            // repeated conversions nest one level per operator and recurse on it
            continue;
        }
        if !conversions && (label.contains("to_deep") || label.contains("to_flat_to")) {
            // flat -> deep is quadratic in the chain length; long chains take this route for a sample only
            continue;
        }
        match guard(|| f()) {
            Err(p) => {
                return Err(fail(&format!("C14/{label}/panic"), format!("panic evaluating chain of {n_operands} operands: {p}"), describe("panic")))
            }
            Ok(Err(e)) => {
                return Err(fail(&format!("C14/{label}/error"), format!("error on well-formed chain of {n_operands} operands: {e}"), describe(&e)))
            }
            Ok(Ok(v)) => {
                if v != refv {
                    let mut got = HashMap::new();
                    let mut want = HashMap::new();
                    leaf_multiset(&v, &mut got);
                    leaf_multiset(&refv, &mut want);
                    let kind = if got != want { "operand-lost-or-duplicated" } else { "wrong-reduction" };
                    return Err(fail(
                        &format!("C14/{label}/{kind}"),
                        format!("chain of {n_operands} operands ({what}) reduced wrongly by {label}"),
                        describe(&format!("{v:?}")),
                    ));
                }
            }
        }
    }
    Ok(())
}

// ---------------------------------------------------------------------------------------------
// exhaustive: all application orders of chains with 2..=N operands

fn factorial(n: u64) -> u64 {
    (1..=n).product::<u64>().max(1)
}
fn max_n(tier: Tier) -> u64 {
    tier.pick(8, 9)
}
fn n_orders(tier: Tier) -> u64 {
    // two operand patterns per order
    2 * (2..=max_n(tier)).map(|n| factorial(n - 1)).sum::<u64>()
}
/// k-th permutation of 0..m (factorial number system)
fn nth_perm(m: usize, mut k: u64) -> Vec<usize> {
    let mut pool: Vec<usize> = (0..m).collect();
    let mut out = vec![];
    for i in (1..=m).rev() {
        let f = factorial(i as u64 - 1);
        let idx = (k / f) as usize;
        k %= f;
        out.push(pool.remove(idx));
    }
    out
}

fn orders_exhaustive(idx: u64, st: &mut Stats) -> CaseResult {
    let pattern = idx % 2;
    let mut k = idx / 2;
    let mut n = 2u64;
    loop {
        let f = factorial(n - 1);
        if k < f {
            break;
        }
        k -= f;
        n += 1;
    }
    let m = (n - 1) as usize; // operators
    let order = nth_perm(m, k); // order[j] = position of the operator applied j-th
    let mut prio = vec![0i64; m];
    for (j, pos) in order.iter().enumerate() {
        prio[*pos] = (m - 1 - j) as i64 * (99 / m.max(1) as i64).max(1);
    }
    let table: Vec<OpSpec> = (0..m).map(|i| OpSpec::bin(OP_NAMES[i], prio[i], false)).collect();
    let items: Vec<Item> = (0..n as usize)
        .map(|i| {
            let is_var = match pattern {
                0 => true,
                _ => (crate::tape::mix(idx, i as u64) & 3) != 0,
            };
            if is_var {
                Item::Var(i as u32)
            } else {
                Item::Lit(format!("{}", i))
            }
        })
        .collect();
    let g = Group { items, ops: (0..m).collect() };
    let ascending = order.windows(2).all(|w| w[0] < w[1]);
    let descending = order.windows(2).all(|w| w[0] > w[1]);
    st.class(&format!("operands={n}"));
    if n >= 3 && !ascending && !descending {
        st.nontrivial(&format!("{n}:{order:?}:{pattern}"));
        if st.want_sample() && n >= 5 {
            let mut text = String::new();
            g.render(&table, &mut text);
            st.sample(json!({"text": text, "application_order": order, "priorities": prio}));
        }
    }
    check_chain(&table, &g, &format!("application order {order:?}"), true)
}

// ---------------------------------------------------------------------------------------------
// long chains

const LENGTHS: [usize; 28] = [
    3, 9, 17, 31, 32, 33, 34, 63, 64, 65, 66, 67, 127, 128, 129, 130, 191, 192, 193, 194, 255, 256, 257, 258, 320,
    513, 5, HUGE,
];
/// beyond 32 tracker words (2048 operands); only the flat evaluation routes are taken (the deep
/// form and the conversions are quadratic in the length)
const HUGE: usize = 2100;

fn long_chains(tape: &[u32], st: &mut Stats) -> CaseResult {
    let mut t = Tape::new(tape);
    let mut n = *t.pick(&LENGTHS);
    if n == HUGE && !t.chance(25) {
        n = 64; // the huge chain is expensive: a quarter of its draws
    }
    let m = n - 1;
    let k = 1 + t.choose(64); // number of operators in the table
    let pattern = t.choose(8);
    // per position rank in 0..m (desired application rank), mapped to priority levels
    let rank: Vec<usize> = match pattern {
        0 => (0..m).map(|_| t.choose(m)).collect(),                    // random
        1 => (0..m).collect(),                                         // left to right
        2 => (0..m).rev().collect(),                                   // right to left
        3 => (0..m).map(|i| if i % 2 == 0 { i / 2 } else { m - 1 - i / 2 }).collect(), // alternating ends
        4 => (0..m).map(|i| (i as isize - (m / 2) as isize).unsigned_abs()).collect(), // inside-out
        5 => (0..m).map(|i| m - (i as isize - (m / 2) as isize).unsigned_abs()).collect(), // outside-in
        6 => (0..m).map(|i| (i / 64) % 2 * 50 + t.choose(3)).collect(), // blocks of 64
        _ => (0..m).map(|i| (i * 7919) % m).collect(),                 // scattered
    };
    let maxrank = rank.iter().copied().max().unwrap_or(0) + 1;
    // priority levels: k operators with priorities spread over 0..=99; operator chosen per position by rank
    let table: Vec<OpSpec> = (0..k)
        .map(|i| {
            let prio = if k == 1 { 0 } else { 99 - (i as i64 * 99) / (k as i64 - 1) };
            OpSpec::bin(OP_NAMES[i], prio, false)
        })
        .collect();
    let ops: Vec<usize> = rank.iter().map(|r| (r * k / maxrank).min(k - 1)).collect();
    let var_pct = [70u32, 100, 30][t.choose(3)];
    let n_distinct_vars = 1 + t.choose(n.min(40));
    let all_distinct = t.chance(50);
    let mut next_var = 0u32;
    let mut leaf = |t: &mut Tape, i: usize| -> Item {
        if t.chance(var_pct) {
            if all_distinct {
                next_var += 1;
                Item::Var(next_var - 1)
            } else {
                Item::Var(t.choose(n_distinct_vars) as u32)
            }
        } else {
            Item::Lit(format!("{}", i))
        }
    };
    // grouping
    let shape = t.choose(5);
    let items: Vec<Item> = (0..n).map(|i| leaf(&mut t, i)).collect();
    let g = match shape {
        0 | 1 => Group { items, ops },
        2 => nest_right(items, ops, 150),
        3 => nest_left(items, ops, 150),
        _ => random_groups(&mut t, items, ops, 0),
    };
    st.class_if(n == HUGE, "more than 2048 operands (33 tracker words)");
    st.class(&format!("operands~{}", if n <= 17 { "<=17" } else if n <= 67 { "31-67" } else if n <= 130 { "127-130" } else if n <= 194 { "191-194" } else { ">=255" }));
    st.class(&format!("pattern={}", ["random", "left-to-right", "right-to-left", "alternating-ends", "inside-out", "outside-in", "blocks-of-64", "scattered"][pattern]));
    st.class(&format!("shape={}", ["flat", "flat", "right-nested", "left-nested", "random-groups"][shape]));
    if n >= 64 || (n >= 3 && pattern != 1 && pattern != 2) {
        let mut text = String::new();
        g.render(&table, &mut text);
        if st.nontrivial(&text) && st.want_sample() {
            st.sample(json!({"text": text, "operands": n, "operators_in_table": k}));
        }
    }
    let conversions = n <= 200 || t.chance(25);
    st.class_if(conversions && n > 200, "flat->deep conversion of >200 operands");
    check_chain(&table, &g, &format!("pattern {pattern} shape {shape} k={k}"), conversions)
}

fn nest_right(mut items: Vec<Item>, mut ops: Vec<usize>, max_depth: usize) -> Group {
    // a o (b o (c o ( ... rest flat)))
    let depth = max_depth.min(items.len().saturating_sub(2));
    if depth == 0 {
        return Group { items, ops };
    }
    let tail_items = items.split_off(depth);
    let tail_ops = ops.split_off(depth);
    let mut g = Group { items: tail_items, ops: tail_ops };
    while let Some(it) = items.pop() {
        let op = ops.pop().unwrap();
        g = Group { items: vec![it, Item::Sub(g)], ops: vec![op] };
    }
    g
}
fn nest_left(items: Vec<Item>, ops: Vec<usize>, max_depth: usize) -> Group {
    // (((head flat) o y) o z)
    let depth = max_depth.min(items.len().saturating_sub(2));
    if depth == 0 {
        return Group { items, ops };
    }
    let n = items.len();
    let mut items = items;
    let mut ops = ops;
    let tail_items = items.split_off(n - depth);
    let tail_ops = ops.split_off(n - 1 - depth);
    let mut g = Group { items, ops };
    for (it, op) in tail_items.into_iter().zip(tail_ops) {
        g = Group { items: vec![Item::Sub(g), it], ops: vec![op] };
    }
    g
}
fn random_groups(t: &mut Tape, items: Vec<Item>, ops: Vec<usize>, depth: usize) -> Group {
    if items.len() < 3 || depth > 20 {
        return Group { items, ops };
    }
    let mut out_items = vec![];
    let mut out_ops = vec![];
    let mut i = 0;
    let n = items.len();
    while i < n {
        // start a sub-group here?
        if i + 1 < n && t.chance(25) && !(i == 0 && depth == 0 && false) {
            let len = 2 + t.choose((n - i - 1).min(40));
            let len = len.min(n - i);
            if len == n {
                // the whole group in parentheses: fine too
            }
            let sub_items = items[i..i + len].to_vec();
            let sub_ops = ops[i..i + len - 1].to_vec();
            out_items.push(Item::Sub(random_groups(t, sub_items, sub_ops, depth + 1)));
            i += len;
        } else {
            out_items.push(items[i].clone());
            i += 1;
        }
        if i < n {
            out_ops.push(ops[i - 1]);
        }
    }
    Group { items: out_items, ops: out_ops }
}

pub fn def() -> PropDef {
    PropDef {
        id: "C14",
        level_text: "all application orders of chains up to 8/9 operands enumerated exhaustively; long chains (up to 513 operands, around every multiple of 64) with random and structured orders; exact comparison with an index-free list-merging model over a free term algebra, for 8 evaluation routes (flat folded/unfolded, consuming, deep, conversions)",
        assumptions: vec![
            "non-commutative operators only, so the result must equal the model exactly",
            "priorities 0..=99; orders needing more levels are realised with parentheses",
        ],
        subs: vec![
            SubCheck {
                name: "orders_exhaustive",
                rule: "index -> (n in 2..=8 quick / 9 thorough, permutation of the n-1 operators realised by distinct priorities, operand pattern all-variables | mixed literals); non-trivial = n>=3 and order neither ascending nor descending; distinct by (n, order, pattern)",
                kind: Kind::Indexed { n: n_orders, f: orders_exhaustive, exhaustive: true },
            },
            SubCheck {
                name: "long_chains",
                rule: "tape -> length from {3..513, dense around 32,64,128,192,256} x 1-64 operators x order pattern (random, left-to-right, right-to-left, alternating ends, inside-out, outside-in, blocks of 64, scattered) x operands (variables repeated or all distinct, literals) x grouping (flat, right-nested, left-nested, random groups); non-trivial = >=64 operands or a non-monotone order; distinct by text",
                kind: Kind::Tape { len: 4300, quick: 3_000, thorough: 150_000, f: long_chains },
            },
        ],
    }
}
