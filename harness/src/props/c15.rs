//! C15 — Consuming evaluation agrees with borrowing evaluation.
use super::PropDef;
use crate::gen::*;
use crate::runner::*;
use crate::tape::Tape;
use crate::tcase::*;
use crate::term::{describe_table, OpSpec, Term, CLONES, COUNT_CLONES, MOVED_SEEN};
use exmex::prelude::*;
use serde_json::json;
use std::collections::HashMap;

fn occurrences(tr: &Tree, occ: &mut HashMap<usize, usize>) {
    match tr {
        Tree::Var(i) => *occ.entry(*i).or_insert(0) += 1,
        Tree::Un(_, a) => occurrences(a, occ),
        Tree::Bin(_, a, b) => {
            occurrences(a, occ);
            occurrences(b, occ)
        }
        _ => {}
    }
}

struct Counted {
    value: Result<Term, String>,
    clones: HashMap<u32, usize>,
    moved_seen: usize,
}

fn counted(f: impl FnOnce() -> Result<Term, String>) -> Counted {
    CLONES.with(|c| c.borrow_mut().clear());
    MOVED_SEEN.with(|m| m.set(0));
    COUNT_CLONES.with(|c| c.set(true));
    let value = f();
    COUNT_CLONES.with(|c| c.set(false));
    Counted {
        value,
        clones: CLONES.with(|c| c.borrow().clone()),
        moved_seen: MOVED_SEEN.with(|m| m.get()),
    }
}

fn check_consuming(
    label: &str,
    e: &F,
    vals: &[Term],
    occ_by_atom: &HashMap<u32, usize>,
    text: &str,
    describe: &dyn Fn() -> serde_json::Value,
) -> CaseResult {
    let borrowed = ex_msg(e.eval(vals));
    let mk = |k: &str, msg: String| fail(&format!("C15/{label}/{k}"), msg, describe());
    let borrowed = match borrowed {
        Ok(v) => v,
        Err(e) => return Err(mk("eval-error", format!("`{text}`: eval fails: {e}"))),
    };
    for which in ["eval_vec", "eval_iter"] {
        let v: Vec<Term> = vals.iter().map(|x| x.clone_quiet()).collect();
        let c = counted(|| {
            if which == "eval_vec" {
                ex_msg(e.eval_vec(v))
            } else {
                ex_msg(e.eval_iter(v.into_iter()))
            }
        });
        match c.value {
            Err(er) => return Err(mk(&format!("{which}-error"), format!("`{text}`: {which} fails: {er}"))),
            Ok(val) => {
                if c.moved_seen > 0 || val.has_poison() {
                    return Err(mk(
                        &format!("{which}-moved-placeholder-reached-operator"),
                        format!("`{text}`: a moved-out placeholder reached an operator in {which}: {val:?}"),
                    ));
                }
                if val != borrowed {
                    return Err(mk(
                        &format!("{which}-differs"),
                        format!("`{text}`: {which} gives {val:?}, eval gives {borrowed:?}"),
                    ));
                }
                for (atom, occ) in occ_by_atom {
                    let cl = c.clones.get(atom).copied().unwrap_or(0);
                    if *occ == 1 && cl > 0 {
                        return Err(mk(
                            &format!("{which}-single-occurrence-cloned"),
                            format!("`{text}`: variable [a{atom}] occurs once but was cloned {cl} time(s) in {which}"),
                        ));
                    }
                    if cl > *occ {
                        return Err(mk(
                            &format!("{which}-cloned-more-than-occurrences"),
                            format!("`{text}`: variable [a{atom}] occurs {occ} times but was cloned {cl} times in {which}"),
                        ));
                    }
                }
            }
        }
    }
    // wrong lengths
    for len in [vals.len() + 1, vals.len().wrapping_sub(1)] {
        if len == usize::MAX {
            continue;
        }
        let v: Vec<Term> = (0..len).map(|i| Term::Atom(800_000 + i as u32)).collect();
        if e.eval_vec(v.clone()).is_ok() || e.eval_iter(v.into_iter()).is_ok() {
            return Err(mk("wrong-length-accepted", format!("`{text}` has {} variables but consuming evaluation with {len} values returns Ok", vals.len())));
        }
    }
    Ok(())
}

fn consuming(tape: &[u32], st: &mut Stats) -> CaseResult {
    consuming_sized(tape, st, &[6usize, 12, 24, 70])
}
/// so many occurrences of 1-2 variables that a variable occurs more than 255 times
fn consuming_many(tape: &[u32], st: &mut Stats) -> CaseResult {
    consuming_sized(tape, st, &[500usize, 700, 900])
}
fn consuming_sized(tape: &[u32], st: &mut Stats, sizes: &[usize]) -> CaseResult {
    let mut t = Tape::new(tape);
    let mut nvars = 1 + t.choose(8);
    let max_operands = sizes[t.choose(sizes.len())];
    if max_operands > 100 {
        nvars = 1 + t.choose(2);
    }
    let cfg = CaseCfg {
        table: TableCfg { max_bin: 5, max_un: 3, max_const: 1, ..TableCfg::default() },
        tree: TreeCfg { max_operands, lit_pct: 15, unary_pct: if max_operands > 100 { 4 } else { 15 }, ..TreeCfg::default() },
        render: RenderCfg::default(),
        max_vars: nvars,
        weird_pct: 0,
    };
    let case = gen_term_case(&mut t, &cfg);
    let mut occ = HashMap::new();
    occurrences(&case.tree, &mut occ);
    let occ_by_atom: HashMap<u32, usize> = occ.iter().map(|(k, v)| (*k as u32, *v)).collect();
    let has3 = occ.values().any(|c| *c >= 3);
    let has1 = occ.values().any(|c| *c == 1);
    st.class_if(has3, "a variable occurs >=3 times");
    st.class_if(has1, "a variable occurs exactly once");
    st.class_if(occ.values().any(|c| *c > 255), "a variable occurs more than 255 times");
    st.class_if(case.facts.operands > 32, ">32 operands");
    st.class_if(case.facts.operands > 64, ">64 operands");
    st.class_if(case.names.len() > 16, ">16 variables");
    let many = occ.values().any(|c| *c > 255);
    if (has3 && has1) || many {
        if st.nontrivial(&format!("{}|{}", case.text, describe_table(&case.table))) && st.want_sample() {
            let mut c = case.describe();
            c["occurrences"] = json!(occ.iter().map(|(k, v)| (case.pool.names[*k].clone(), *v)).collect::<Vec<_>>());
            st.sample(c);
        }
    }
    let text: &str = &case.text;
    let describe = || case.describe();
    let res = guard(|| -> Result<CaseResult, String> {
        let f = ex_msg(F::parse(text))?;
        let w = ex_msg(F::parse_wo_compile(text))?;
        let fd = ex_msg(F::from_deepex(ex_msg(D::parse(text))?))?;
        for (label, e) in [("flat", &f), ("flat_wo_compile", &w), ("deep->flat", &fd)] {
            if let Err(fl) = check_consuming(label, e, &case.vals, &occ_by_atom, text, &describe) {
                return Ok(Err(fl));
            }
            // and the value is the reference
            let v = ex_msg(e.eval_vec(case.vals.iter().map(|x| x.clone_quiet()).collect()))?;
            if case.norm(&v) != case.refv {
                return Ok(Err(fail(
                    &format!("C15/{label}/wrong-value"),
                    format!("`{text}`: eval_vec gives {:?}, reference {:?}", case.norm(&v), case.refv),
                    describe(),
                )));
            }
        }
        Ok(Ok(()))
    });
    match res {
        Err(p) => Err(fail("C15/panic", format!("`{text}`: panic in consuming evaluation: {p}"), describe())),
        Ok(Err(e)) => Err(fail("C15/error", format!("`{text}`: {e}"), describe())),
        Ok(Ok(r)) => r,
    }
}

/// Variables that are listed but do not occur in any node (as after `x*0 + y` on deep expressions).
fn zero_occurrence(tape: &[u32], st: &mut Stats) -> CaseResult {
    let mut t = Tape::new(tape);
    let mut table = vec![OpSpec::bin("+", 1, t.chance(50)), OpSpec::bin("*", 2, t.chance(50)), OpSpec::un("f")];
    if t.chance(50) {
        table.push(OpSpec::bin("-", 1, false));
    }
    let pool = VarPool { names: (0..6).map(|i| format!("v{i}")).collect(), bare_ok: vec![true; 6] };
    let tcfg = TreeCfg { max_operands: 6, lit_pct: 15, unary_pct: 10, ..TreeCfg::default() };
    let ta = gen_tree(&mut t, &table, 6, &tcfg);
    let tb = gen_tree(&mut t, &table, 6, &tcfg);
    let a = finish_case(&mut t, table.clone(), pool.clone(), ta, &RenderCfg::default());
    let b = finish_case(&mut t, table.clone(), pool.clone(), tb, &RenderCfg::default());
    let (ta_, tb_): (&str, &str) = (&a.text, &b.text);
    // (A * 0) + B  ==  B, listed over names(A) u names(B)
    let mut all: Vec<String> = a.names.iter().chain(b.names.iter()).cloned().collect();
    all.sort();
    all.dedup();
    let vanished: Vec<&String> = all.iter().filter(|n| !b.names.contains(n)).collect();
    st.class_if(!vanished.is_empty(), "a listed variable has no occurrence");
    let vals: Vec<Term> = all.iter().map(|n| Term::Atom(pool.names.iter().position(|p| p == n).unwrap() as u32)).collect();
    let mut occ = HashMap::new();
    occurrences(&b.tree, &mut occ);
    let mut occ_by_atom: HashMap<u32, usize> = occ.iter().map(|(k, v)| (*k as u32, *v)).collect();
    for n in &vanished {
        occ_by_atom.insert(pool.names.iter().position(|p| &p == n).unwrap() as u32, 0);
    }
    let describe = || json!({"a": a.text, "b": b.text, "expression": "(a * 0) + b on DeepEx", "table": describe_table(&table), "vars": all});
    if !vanished.is_empty() && st.nontrivial(&format!("{ta_}|{tb_}")) && st.want_sample() {
        st.sample(describe());
    }
    let res = guard(|| -> Result<CaseResult, String> {
        let da = ex_msg(D::parse(ta_))?;
        let db = ex_msg(D::parse(tb_))?;
        let zero = ex_msg(D::parse("0"))?;
        let prod = ex_msg(da * zero)?;
        let sum = ex_msg(prod + db)?;
        let f = ex_msg(F::from_deepex(sum))?;
        if f.var_names() != &all[..] {
            // C04/C10 judge the names; here the list is a precondition of the scenario
            return Ok(Ok(()));
        }
        if let Err(fl) = check_consuming("zero-occurrence", &f, &vals, &occ_by_atom, "(a*0)+b", &describe) {
            return Ok(Err(fl));
        }
        let v = ex_msg(f.eval_vec(vals.iter().map(|x| x.clone_quiet()).collect()))?;
        if b.norm(&v) != b.refv {
            return Ok(Err(fail("C15/zero-occurrence/wrong-value", format!("(a*0)+b with a=`{ta_}`, b=`{tb_}` gives {:?}, expected {:?}", b.norm(&v), b.refv), describe())));
        }
        Ok(Ok(()))
    });
    match res {
        Err(p) => Err(fail("C15/zero-occurrence/panic", format!("panic: {p}"), describe())),
        Ok(Err(e)) => Err(fail("C15/zero-occurrence/error", e, describe())),
        Ok(Ok(r)) => r,
    }
}

pub fn def() -> PropDef {
    PropDef {
        id: "C15",
        level_text: "generated expressions with controlled repetition patterns; eval_vec/eval_iter compared exactly with eval over a free term algebra whose Default value is a poison marker and whose Clone counts per variable",
        assumptions: vec!["values passed are plain atoms, so one clone of a value is one counted clone"],
        subs: vec![
            SubCheck {
                name: "consuming",
                rule: "tape -> table x 1-8 variables x tree(up to 6/12/24/70 operands, 85% variables) x rendering; forms folded, unfolded, flat built from deep; non-trivial = some variable occurs >=3 times and another exactly once; distinct by text+table",
                kind: Kind::Tape { len: 900, quick: 30_000, thorough: 2_000_000, f: consuming },
            },
            SubCheck {
                name: "consuming_many",
                rule: "as consuming with trees of up to 500/700/900 operands over 1-2 variables (occurrence counters, quadratic scans); non-trivial = a variable occurs more than 255 times",
                kind: Kind::Tape { len: 8000, quick: 60, thorough: 20_000, f: consuming_many },
            },
            SubCheck {
                name: "zero_occurrence",
                rule: "(a*0)+b built with the overloaded operators on deep expressions, flattened: variables of a that do not occur in b are listed but have no node; non-trivial = at least one such variable",
                kind: Kind::Tape { len: 300, quick: 10_000, thorough: 500_000, f: zero_occurrence },
            },
        ],
    }
}
