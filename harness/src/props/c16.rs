//! C16 — Value-typed arithmetic follows the documented typing and error rules.
use super::PropDef;
use crate::fixed::*;
use crate::gen::*;
use crate::runner::*;
use crate::tape::Tape;
use crate::tcase::ex_msg;
use crate::valref::*;
use exmex::prelude::*;
use exmex::{MakeOperators, Operator, Val, ValOpsFactory};
use serde_json::json;
use smallvec::SmallVec;

pub fn val_ops() -> Vec<Operator<'static, V>> {
    ValOpsFactory::<i32, f64>::make()
}

pub fn show(v: &V) -> String {
    match v {
        Val::Error(e) => format!("Error({})", e.msg()),
        x => format!("{x:?}"),
    }
}

pub fn check_binary(prop: &str, name: &str, a: &V, b: &V, only_error_cells: bool, st: &mut Stats) -> CaseResult {
    let ops = val_ops();
    let op = ops.iter().find(|o| o.repr() == name && o.has_bin());
    let Some(op) = op else {
        return Err(fail(&format!("{prop}/missing-operator"), format!("binary operator `{name}` is documented but missing"), json!({"operator": name})));
    };
    let f = op.bin().unwrap().apply;
    let expect = ref_binary(name, a, b);
    let describe = || json!({"operator": name, "left": show(a), "right": show(b), "expected": format!("{expect:?}")});
    let got = match guard(|| f(a.clone(), b.clone())) {
        Ok(g) => g,
        Err(p) => {
            return Err(fail(&format!("{prop}/binary/{name}/panic"), format!("{} {name} {} panics: {p}", show(a), show(b)), describe()));
        }
    };
    match &expect {
        Expect::Unspecified => {
            st.class("unspecified cell (not judged)");
            Ok(())
        }
        Expect::Exactly(_) if only_error_cells => Ok(()),
        e => {
            st.class("judged cell");
            if satisfies(&got, e) {
                Ok(())
            } else {
                Err(fail(
                    &format!("{prop}/binary/{name}/{}-{}", kind(a), kind(b)),
                    format!("{} {name} {} = {}, documented rules give {}", show(a), show(b), show(&got), match e { Expect::Exactly(v) => show(v), _ => "an error value".into() }),
                    describe(),
                ))
            }
        }
    }
}

pub fn check_unary(prop: &str, name: &str, a: &V, only_error_cells: bool, st: &mut Stats) -> CaseResult {
    let ops = val_ops();
    let op = ops.iter().find(|o| o.repr() == name && o.has_unary());
    let Some(op) = op else {
        return Err(fail(&format!("{prop}/missing-operator"), format!("unary operator `{name}` is documented but missing"), json!({"operator": name})));
    };
    let f = op.unary().unwrap();
    let expect = ref_unary(name, a);
    let describe = || json!({"operator": name, "operand": show(a), "expected": format!("{expect:?}")});
    let got = match guard(|| f(a.clone())) {
        Ok(g) => g,
        Err(p) => return Err(fail(&format!("{prop}/unary/{name}/panic"), format!("{name}({}) panics: {p}", show(a)), describe())),
    };
    match &expect {
        Expect::Unspecified => {
            st.class("unspecified cell (not judged)");
            Ok(())
        }
        Expect::Exactly(_) if only_error_cells => Ok(()),
        e => {
            st.class("judged cell");
            if satisfies(&got, e) {
                Ok(())
            } else {
                Err(fail(
                    &format!("{prop}/unary/{name}/{}", kind(a)),
                    format!("{name}({}) = {}, documented rules give {}", show(a), show(&got), match e { Expect::Exactly(v) => show(v), _ => "an error value".into() }),
                    describe(),
                ))
            }
        }
    }
}

pub fn bin_names() -> Vec<&'static str> {
    let mut v: Vec<&'static str> = BIN_OPS.to_vec();
    v.pop(); // the duplicate "+"
    v
}
pub fn un_names() -> Vec<&'static str> {
    let mut v: Vec<&'static str> = FLOAT_FUNCS.to_vec();
    v.extend(["log", "+", "-", "abs", "signum", "to_int", "to_float", "fact", "swap_bytes", "to_le", "to_be", "length"]);
    v
}

pub fn n_catalogue(_: Tier) -> u64 {
    let c = catalogue().len() as u64;
    bin_names().len() as u64 * c * c + un_names().len() as u64 * c
}

pub fn decode_cell(i: u64) -> (bool, &'static str, usize, usize) {
    let c = catalogue().len() as u64;
    let nb = bin_names().len() as u64 * c * c;
    if i < nb {
        let name = bin_names()[(i / (c * c)) as usize];
        (true, name, ((i / c) % c) as usize, (i % c) as usize)
    } else {
        let j = i - nb;
        (false, un_names()[(j / c) as usize], (j % c) as usize, 0)
    }
}

fn operators_catalogue(i: u64, st: &mut Stats) -> CaseResult {
    let cat = catalogue();
    let (is_bin, name, a, b) = decode_cell(i);
    if is_bin {
        if kind(&cat[a]) != kind(&cat[b]) || is_boundary(&cat[a]) || is_boundary(&cat[b]) {
            st.nontrivial(&format!("{name}:{a}:{b}"));
        }
        if st.want_sample() && a == 11 && b == 2 {
            st.sample(json!({"operator": name, "left": show(&cat[a]), "right": show(&cat[b])}));
        }
        check_binary("C16", name, &cat[a], &cat[b], false, st)
    } else {
        if is_boundary(&cat[a]) {
            st.nontrivial(&format!("{name}:{a}"));
        }
        check_unary("C16", name, &cat[a], false, st)
    }
}

pub fn gen_val(t: &mut Tape) -> V {
    match t.weighted(&[5, 5, 1, 2, 1, 1, 3]) {
        0 => Val::Int(match t.choose(4) {
            0 => t.raw() as i32,
            1 => t.choose(65) as i32 - 32,
            2 => i32::MAX - t.choose(4) as i32,
            _ => i32::MIN + t.choose(4) as i32,
        }),
        1 => Val::Float(match t.choose(4) {
            0 => f64::from_bits(((t.raw() as u64) << 32) | t.raw() as u64),
            1 => (t.unit_f64() - 0.5) * 100.0,
            2 => (t.choose(129) as f64 - 64.0) / 4.0,
            _ => (t.unit_f64() - 0.5) * 1e10,
        }),
        2 => Val::Bool(t.chance(50)),
        3 => {
            let n = t.choose(6);
            Val::Array((0..n).map(|_| (t.choose(41) as f64 - 20.0) / 2.0).collect::<SmallVec<[f64; 4]>>())
        }
        4 => Val::None,
        5 => err(),
        _ => t.pick(&catalogue()).clone(),
    }
}

fn operators_random(tape: &[u32], st: &mut Stats) -> CaseResult {
    let mut t = Tape::new(tape);
    if t.chance(70) {
        let name = *t.pick(&bin_names());
        let (a, b) = (gen_val(&mut t), gen_val(&mut t));
        if st.nontrivial(&format!("{name}{}{}", show(&a), show(&b))) && st.want_sample() {
            st.sample(json!({"operator": name, "left": show(&a), "right": show(&b)}));
        }
        check_binary("C16", name, &a, &b, false, st)
    } else {
        let name = *t.pick(&un_names());
        let a = gen_val(&mut t);
        st.nontrivial(&format!("{name}{}", show(&a)));
        check_unary("C16", name, &a, false, st)
    }
}

// ---------------------------------------------------------------------------------------------
// precedence over the value table: typed trees, operands on which flagged operators are AC

const VEC_LITS: [&str; 5] = ["[1,0,0]", "[0,1,0]", "[2,1,3]", "[0,0,1]", "[1, 2, 2]"];
const INT_LITS: [&str; 8] = ["0", "1", "2", "3", "4", "5", "6", "7"];

struct Typed<'a> {
    table: &'a [crate::term::OpSpec],
}
impl<'a> Typed<'a> {
    fn ix(&self, name: &str) -> usize {
        self.table.iter().position(|o| o.name == name).unwrap()
    }
    fn int(&self, t: &mut Tape, n: usize) -> Tree {
        if n <= 1 {
            let leaf = if t.chance(50) { Tree::Var(t.choose(3)) } else { Tree::Num(t.pick(&INT_LITS).to_string()) };
            return if t.chance(10) { Tree::Un(self.ix(if t.chance(50) { "-" } else { "abs" }), Box::new(leaf)) } else { leaf };
        }
        if n >= 3 && t.chance(12) {
            // a if c else b
            let k = 1 + t.choose(n - 2);
            let rest = n - k;
            let kc = 1.max(rest / 2);
            let a = self.int(t, k);
            let c = self.boolean(t, kc.max(2));
            let b = self.int(t, (rest - kc.min(rest - 1)).max(1));
            return Tree::Bin(self.ix("else"), Box::new(Tree::Bin(self.ix("if"), Box::new(a), Box::new(c))), Box::new(b));
        }
        let l = 1 + t.choose(n - 1);
        let op = *t.pick(&["+", "-", "*", "+", "-", "|", "&", "XOR", "min", "max", "%", "<<", ">>"]);
        let tr = Tree::Bin(self.ix(op), Box::new(self.int(t, l)), Box::new(self.int(t, n - l)));
        if t.chance(8) {
            Tree::Un(self.ix("-"), Box::new(tr))
        } else {
            tr
        }
    }
    /// 3-vectors with small integer components (variables u, v and literals): cross, + and - are
    /// exact on them, and `cross` is neither commutative nor associative
    fn vec3(&self, t: &mut Tape, n: usize) -> Tree {
        if n <= 1 {
            return if t.chance(40) { Tree::Var(3 + t.choose(2)) } else { Tree::Num(t.pick(&VEC_LITS).to_string()) };
        }
        let l = if t.chance(60) { n - 1 } else { 1 + t.choose(n - 1) };
        let op = *t.pick(&["cross", "cross", "cross", "+", "-"]);
        Tree::Bin(self.ix(op), Box::new(self.vec3(t, l)), Box::new(self.vec3(t, n - l)))
    }
    fn boolean(&self, t: &mut Tape, n: usize) -> Tree {
        if n <= 1 {
            return Tree::Num(if t.chance(50) { "true" } else { "false" }.to_string());
        }
        if n >= 4 && t.chance(35) {
            let l = 2 + t.choose(n - 3);
            let op = *t.pick(&["&&", "||", "==", "!="]);
            return Tree::Bin(self.ix(op), Box::new(self.boolean(t, l)), Box::new(self.boolean(t, n - l)));
        }
        let l = 1 + t.choose(n - 1);
        let op = *t.pick(&["<", "<=", ">", ">=", "==", "!="]);
        Tree::Bin(self.ix(op), Box::new(self.int(t, l)), Box::new(self.int(t, n - l)))
    }
}

/// precedence parse of `leaf op leaf op ... leaf`: higher priority first, left to right among equals
fn chain_tree(ops: &[usize], leaves: Vec<Tree>, table: &[crate::term::OpSpec]) -> Tree {
    let prio = |o: usize| table[o].bin.unwrap().0;
    let mut operands: Vec<Tree> = vec![];
    let mut pending: Vec<usize> = vec![];
    let reduce = |operands: &mut Vec<Tree>, o: usize| {
        let b = operands.pop().unwrap();
        let a = operands.pop().unwrap();
        operands.push(Tree::Bin(o, Box::new(a), Box::new(b)));
    };
    let mut it = leaves.into_iter();
    operands.push(it.next().unwrap());
    for (o, leaf) in ops.iter().zip(it) {
        while let Some(top) = pending.last() {
            if prio(*top) >= prio(*o) {
                let top = pending.pop().unwrap();
                reduce(&mut operands, top);
            } else {
                break;
            }
        }
        pending.push(*o);
        operands.push(leaf);
    }
    while let Some(top) = pending.pop() {
        reduce(&mut operands, top);
    }
    operands.pop().unwrap()
}

fn precedence_trees(tape: &[u32], st: &mut Stats) -> CaseResult {
    let mut t = Tape::new(tape);
    let table = val_table();
    let ty = Typed { table: &table };
    let n = 1 + t.choose(9);
    let long = t.chance(12);
    let tree = if long {
        // 21-45 operands joined on ONE nesting level by operators that cannot overflow on small
        // integers; the tree is the precedence parse of the sequence (higher priority first,
        // left to right among equals)
        let n = 21 + t.choose(25);
        let leaves: Vec<Tree> = (0..n).map(|_| ty.int(&mut t, 1)).collect();
        let ops: Vec<usize> = (0..n - 1).map(|_| ty.ix(*t.pick(&["+", "-", "-", "|", "&", "XOR", "min", "max", "%", "-"]))).collect();
        chain_tree(&ops, leaves, &table)
    } else if t.chance(12) {
        let n = 2 + t.choose(4);
        ty.vec3(&mut t, n)
    } else if t.chance(25) {
        ty.boolean(&mut t, n.max(2))
    } else {
        ty.int(&mut t, n)
    };
    st.class_if(matches!(&tree, Tree::Bin(o, ..) if ["cross"].contains(&table[*o].name)), "chain of vector operators ending in cross");
    st.class_if(long, "more than 20 binary operators on one nesting level");
    let pool = VarPool { names: vec!["x".into(), "y".into(), "z".into(), "u".into(), "v".into()], bare_ok: vec![true; 5] };
    let rcfg = RenderCfg { call_pct: 15, redundant_paren_pct: 6, ..RenderCfg::default() };
    let (text, _toks, _info) = render(&tree, &table, &pool, &rcfg, &mut t);
    let facts = tree_facts(&tree, &table);
    st.class_if(facts.equal_prio_adjacent, "equal-priority operators adjacent");
    st.class_if(facts.equal_prio_mixed, "commutative and other operator share a priority, adjacent");
    st.class_if(facts.adjacent_literals, "adjacent literal operands");
    let arr3 = |a: [f64; 3]| -> V { Val::Array(a.into_iter().collect()) };
    let vals_all: [V; 5] = [Val::Int(3), Val::Int(-2), Val::Int(5), arr3([1.0, 2.0, 3.0]), arr3([-2.0, 0.0, 1.0])];
    let mut used = std::collections::BTreeSet::new();
    vars_used(&tree, &mut used);
    let vals: Vec<V> = used.iter().map(|i| vals_all[*i].clone()).collect();
    let ops = val_ops();
    // the assumption "flagged operators are associative and commutative on the operands" holds for
    // small integers only: an intermediate error value or an integer beyond 2^24 (e.g. 2<<30) means that
    // a regrouping of checked integer + or * may legitimately turn an overflow error into a value
    let mut beyond = false;
    let reference = eval_with_ops_watch(&tree, &table, &ops, &vals_all, &mut |v: &V| match v {
        Val::Int(i) if (*i as i64).abs() > (1 << 24) => beyond = true,
        Val::Error(_) => beyond = true,
        _ => {}
    });
    if beyond {
        st.excluded("an intermediate value is an error value or an integer beyond 2^24 (flagged operators are not associative there)");
        // still: no parser may panic on the text
        let text2: &str = &text;
        if let Err(p) = guard(|| {
            let _ = exmex::parse_val::<i32, f64>(text2).map(|e| e.eval(&vals));
            let _ = exmex::DeepEx::<V, exmex::ValOpsFactory<i32, f64>, exmex::ValMatcher>::parse(text2).map(|e| e.eval(&vals));
        }) {
            return Err(fail("C16/precedence/panic", format!("`{text}` panics: {p}"), json!({"text": text})));
        }
        return Ok(());
    }
    if facts.equal_prio_mixed && st.nontrivial(&text) && st.want_sample() {
        st.sample(json!({"text": text, "expected": show(&reference)}));
    }
    let text: &str = &text;
    let c = || json!({"text": text, "expected": show(&reference), "tree": tree_to_string(&tree, &table, &pool)});
    for (what, compile) in [("parse_val", 0), ("parse_wo_compile", 1), ("DeepEx<Val>::parse", 2)] {
        let r = guard(|| -> Result<V, String> {
            match compile {
                0 => ex_msg(ex_msg(exmex::parse_val::<i32, f64>(text))?.eval(&vals)),
                1 => ex_msg(ex_msg(exmex::FlatExVal::<i32, f64>::parse_wo_compile(text))?.eval(&vals)),
                _ => ex_msg(ex_msg(exmex::DeepEx::<V, exmex::ValOpsFactory<i32, f64>, exmex::ValMatcher>::parse(text))?.eval(&vals)),
            }
        });
        match r {
            Err(p) => return Err(fail(&format!("C16/precedence/{what}/panic"), format!("`{text}` panics: {p}"), c())),
            Ok(Err(e)) => return Err(fail(&format!("C16/precedence/{what}/rejected"), format!("well-formed `{text}` rejected: {e}"), c())),
            Ok(Ok(v)) => {
                if !same(&v, &reference) {
                    return Err(fail(
                        &format!("C16/precedence/{what}/wrong-value"),
                        format!("`{text}` = {}, precedence semantics (left-to-right among equal priorities) give {}", show(&v), show(&reference)),
                        c(),
                    ));
                }
            }
        }
    }
    Ok(())
}

pub fn def() -> PropDef {
    PropDef {
        id: "C16",
        level_text: "every operator of the value table x every ordered pair of a catalogue of boundary operands (exhaustive) and random operands, judged by an independent reference interpreter of the documented rules (cells the documentation leaves open are counted, not judged); typed expression trees over the real table compared with left-to-right precedence semantics",
        assumptions: vec![
            "unspecified on purpose: float / int-zero, scalar-minus/div-array orientation, arrays of different length, && || on non-bools, ordering of bools, int ^ float, non-bool conditions of `if`, `!=` on mismatched kinds, float functions of an int, out-of-range component index",
            "Error == Error regardless of the message; floats within 2 ulp, NaN == NaN",
            "precedence trees use small integers and bools, on which every operator flagged commutative is associative and commutative; trees with an intermediate error value or an integer beyond 2^24 (2<<30 ...) are not judged, counted",
        ],
        subs: vec![
            SubCheck {
                name: "operators_catalogue",
                rule: "27 binary operators x 41 x 41 operands + 36 unary operators x 41 operands (ints incl. MIN/MAX/0/-1/31/32/33, floats incl. NaN/inf/-0.0/huge/2^31, bools, arrays of length 0,1,3,5, none, error); non-trivial = operands of different kinds or a boundary value",
                kind: Kind::Indexed { n: n_catalogue, f: operators_catalogue, exhaustive: true },
            },
            SubCheck {
                name: "operators_random",
                rule: "operator x random operands (raw bit patterns, small, near MIN/MAX, arrays of length 0-5, none, error, catalogue values); distinct by operator+operands",
                kind: Kind::Tape { len: 24, quick: 300_000, thorough: 5_000_000, f: operators_random },
            },
            SubCheck {
                name: "precedence_trees",
                rule: "tape -> typed tree (int: + - * | & XOR min max % << >> unary - abs, `a if c else b`; bool: comparisons, && || == !=) over the value table x rendering, via parse_val, parse_wo_compile and DeepEx<Val>::parse; 12% of the cases are 21-45 operands joined on one nesting level by + - | & XOR min max %, 10% are chains of 2-5 integer-valued 3-vectors (variables and literals) joined by cross + -; reference = the tree folded with the table's own functions; non-trivial = a commutative and a different operator of equal priority adjacent (10 - 2 + 3, x >> 1 | 2, a == b != c)",
                kind: Kind::Tape { len: 300, quick: 40_000, thorough: 2_000_000, f: precedence_trees },
            },
        ],
    }
}
