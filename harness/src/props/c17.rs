//! C17 — Value-typed operators are total: problems surface as error values.
use super::c16::{bin_names, check_binary, check_unary, decode_cell, gen_val, n_catalogue, show, un_names};
use super::PropDef;
use crate::runner::*;
use crate::tape::Tape;
use crate::tcase::ex_msg;
use crate::valref::*;
use exmex::prelude::*;
use exmex::{MakeOperators, Val, ValOpsFactory};
use num::{Float, PrimInt, Signed};
use serde_json::json;
use smallvec::SmallVec;
use std::fmt::Debug;
use std::str::FromStr;

/// the listed situations must yield an error value (i32/f64, the documented instantiation)
fn error_cells(i: u64, st: &mut Stats) -> CaseResult {
    let cat = catalogue();
    let (is_bin, name, a, b) = decode_cell(i);
    if is_bin {
        if is_boundary(&cat[a]) || is_boundary(&cat[b]) {
            st.nontrivial(&format!("{name}:{a}:{b}"));
        }
        if st.want_sample() && a == 11 && b == 2 {
            st.sample(json!({"operator": name, "left": show(&cat[a]), "right": show(&cat[b])}));
        }
        check_binary("C17", name, &cat[a], &cat[b], true, st)
    } else {
        if is_boundary(&cat[a]) {
            st.nontrivial(&format!("{name}:{a}"));
        }
        check_unary("C17", name, &cat[a], true, st)
    }
}

fn generic_catalogue<I, F>() -> Vec<Val<I, F>>
where
    I: exmex::DataType + PrimInt + Signed,
    F: exmex::DataType + Float,
{
    let i = |x: i64| I::from(x).unwrap();
    let f = |x: f64| F::from(x).unwrap();
    let mut c: Vec<Val<I, F>> = vec![];
    for x in [0i64, 1, -1, 2, -2, 3, 5, 7, 8, 9, 31, 32, 33, 63, 64, 65] {
        c.push(Val::Int(i(x)));
    }
    for x in [I::max_value(), I::min_value(), I::max_value() - I::one(), I::min_value() + I::one()] {
        c.push(Val::Int(x));
    }
    for x in [0.0, -0.0, 1.0, -1.0, 0.5, 2.0, 3.7, 1e10, -1e10, 128.0, -129.0, 3e9, 1e19, -1e19] {
        c.push(Val::Float(f(x)));
    }
    for x in [F::max_value(), F::min_positive_value(), F::nan(), F::infinity(), F::neg_infinity()] {
        c.push(Val::Float(x));
    }
    // floats at the ends of the integer type's range (its maximum need not be representable) and
    // their neighbours
    let (fmax, fmin) = (F::from(I::max_value()).unwrap(), F::from(I::min_value()).unwrap());
    let (up, down) = (F::one() + F::epsilon(), F::one() - F::epsilon());
    for x in [fmax, fmin, fmax * up, fmax * down, fmin * up, fmin * down] {
        c.push(Val::Float(x));
    }
    c.push(Val::Bool(true));
    c.push(Val::Bool(false));
    c.push(Val::Array(SmallVec::new()));
    c.push(Val::Array(SmallVec::from_vec(vec![f(1.5)])));
    c.push(Val::Array(SmallVec::from_vec(vec![f(1.0), f(2.0), f(3.0)])));
    c.push(Val::Array(SmallVec::from_vec(vec![f(1.0), f(2.0), f(3.0), f(4.0), f(5.0)])));
    // arrays longer than the largest i8 / i16 (index and length arithmetic in the integer type)
    c.push(Val::Array((0..200).map(|k| f((k % 7) as f64)).collect()));
    c.push(Val::Array((0..33000).map(|k| f((k % 5) as f64)).collect()));
    c.push(Val::None);
    c.push(Val::Error(exmex::ExError::new("catalogue error value")));
    c
}

/// no operator panics for any ordered pair of the catalogue; returns the number of cells
fn totality<I, F>(ty: &str, cell: u64, st: &mut Stats) -> CaseResult
where
    I: exmex::DataType + PrimInt + Signed,
    F: exmex::DataType + Float,
    <I as FromStr>::Err: Debug,
    <F as FromStr>::Err: Debug,
{
    let ops = ValOpsFactory::<I, F>::make();
    let cat = generic_catalogue::<I, F>();
    let n = cat.len() as u64;
    // cell -> (operator index, a, b)
    let oi = (cell / (n * n)) as usize;
    let a = &cat[((cell / n) % n) as usize];
    let b = &cat[(cell % n) as usize];
    let Some(op) = ops.get(oi) else { return Ok(()) };
    if op.constant().is_some() {
        return Ok(());
    }
    st.nontrivial(&format!("{ty}{cell}"));
    if let Ok(bin) = op.bin() {
        if let Err(p) = guard(|| (bin.apply)(a.clone(), b.clone())) {
            return Err(fail(
                &format!("C17/{ty}/binary/{}/panic", op.repr()),
                format!("Val<{ty}>: {a:?} {} {b:?} panics: {p}", op.repr()),
                json!({"type": ty, "operator": op.repr(), "left": format!("{a:?}"), "right": format!("{b:?}")}),
            ));
        }
    }
    if cell % n == 0 {
        if let Ok(un) = op.unary() {
            if let Err(p) = guard(|| un(a.clone())) {
                return Err(fail(
                    &format!("C17/{ty}/unary/{}/panic", op.repr()),
                    format!("Val<{ty}>: {}({a:?}) panics: {p}", op.repr()),
                    json!({"type": ty, "operator": op.repr(), "operand": format!("{a:?}")}),
                ));
            }
        }
    }
    if oi == 0 && cell % n == 0 {
        // the conversion methods of the value type are total as well (errors, not panics)
        if let Err(p) = guard(|| {
            let _ = (a.clone().to_bool(), a.clone().to_float(), a.clone().to_int(), a.clone().to_float_val(), a.clone().to_array());
            let _ = (format!("{a:?}").len(), a.clone() == a.clone(), a.partial_cmp(a));
        }) {
            return Err(fail(
                &format!("C17/{ty}/conversion/panic"),
                format!("Val<{ty}>: a conversion method (to_bool/to_float/to_int/to_float_val/to_array) or comparison of {a:?} panics: {p}"),
                json!({"type": ty, "operand": format!("{a:?}")}),
            ));
        }
    }
    if st.want_sample() && cell % 977 == 0 {
        st.sample(json!({"type": ty, "operator": op.repr(), "left": format!("{a:?}"), "right": format!("{b:?}")}));
    }
    Ok(())
}

fn n_tot(_: Tier) -> u64 {
    let n = generic_catalogue::<i32, f64>().len() as u64;
    ValOpsFactory::<i32, f64>::make().len() as u64 * n * n
}
fn totality_i32_f64(i: u64, st: &mut Stats) -> CaseResult {
    totality::<i32, f64>("i32,f64", i, st)
}
fn totality_i64_f32(i: u64, st: &mut Stats) -> CaseResult {
    totality::<i64, f32>("i64,f32", i, st)
}
fn totality_i8_f32(i: u64, st: &mut Stats) -> CaseResult {
    totality::<i8, f32>("i8,f32", i, st)
}
fn totality_i16_f64(i: u64, st: &mut Stats) -> CaseResult {
    totality::<i16, f64>("i16,f64", i, st)
}

/// the same through literals folded at parse time and through variables at evaluation time
fn through_literals(i: u64, st: &mut Stats) -> CaseResult {
    let cat = catalogue();
    let (is_bin, name, a, b) = decode_cell(i);
    let (va, vb) = (&cat[a], &cat[b]);
    let (la, lb) = (literal_text(va), literal_text(vb));
    if la.is_empty() || (is_bin && lb.is_empty()) {
        st.excluded("operand has no literal spelling (empty array)");
        return Ok(());
    }
    let ops = super::c16::val_ops();
    let (lit_text, var_text, vals): (String, String, Vec<V>) = if is_bin {
        let alpha = name.chars().next().unwrap().is_alphabetic();
        if alpha && (i % 2 == 0) {
            (format!("{name}({la}, {lb})"), format!("{name}(x, y)"), vec![va.clone(), vb.clone()])
        } else {
            (format!("({la}) {name} ({lb})"), format!("x {name} y"), vec![va.clone(), vb.clone()])
        }
    } else {
        (format!("{name}({la})"), format!("{name}(x)"), vec![va.clone()])
    };
    // the direct application (already shown not to panic by the totality sub-checks) is the expectation
    let direct = guard(|| {
        let op = ops.iter().find(|o| o.repr() == name).unwrap();
        if is_bin {
            (op.bin().unwrap().apply)(va.clone(), vb.clone())
        } else {
            (op.unary().unwrap())(va.clone())
        }
    });
    let describe = || json!({"literal_text": lit_text, "variable_text": var_text, "operands": vals.iter().map(show).collect::<Vec<_>>()});
    if is_boundary(va) || (is_bin && is_boundary(vb)) {
        if st.nontrivial(&lit_text) && st.want_sample() && i % 101 == 0 {
            st.sample(describe());
        }
    }
    // literal operands must evaluate to the catalogue values (otherwise the spelling is off, not the library)
    for (l, v) in [(&la, va), (&lb, vb)].iter().take(if is_bin { 2 } else { 1 }) {
        let r = guard(|| exmex::parse_val::<i32, f64>(l).and_then(|e| e.eval(&[])));
        match r {
            Ok(Ok(x)) if same(&x, v) => {}
            Ok(Ok(_)) | Ok(Err(_)) => {
                st.excluded("literal spelling does not reproduce the operand");
                return Ok(());
            }
            Err(p) => {
                return Err(fail("C17/literal/panic", format!("parse_val(`{l}`) panics: {p}"), describe()));
            }
        }
    }
    for (what, text, v) in [("folded-at-parse-time", &lit_text, vec![]), ("through-variables", &var_text, vals.clone())] {
        let r = guard(|| -> Result<V, String> { ex_msg(ex_msg(exmex::parse_val::<i32, f64>(text))?.eval(&v)) });
        match r {
            Err(p) => {
                return Err(fail(&format!("C17/{what}/{name}/panic"), format!("`{text}` with {:?} panics: {p}", v.iter().map(show).collect::<Vec<_>>()), describe()))
            }
            Ok(Err(e)) => return Err(fail(&format!("C17/{what}/{name}/rejected"), format!("`{text}` is rejected: {e}"), describe())),
            Ok(Ok(got)) => {
                if let Ok(d) = &direct {
                    if !same(&got, d) {
                        return Err(fail(
                            &format!("C17/{what}/{name}/differs-from-direct-application"),
                            format!("`{text}` = {}, applying the operator directly gives {}", show(&got), show(d)),
                            describe(),
                        ));
                    }
                }
            }
        }
    }
    Ok(())
}

fn random_total(tape: &[u32], st: &mut Stats) -> CaseResult {
    let mut t = Tape::new(tape);
    if t.chance(70) {
        let name = *t.pick(&bin_names());
        let (a, b) = (gen_val(&mut t), gen_val(&mut t));
        st.nontrivial(&format!("{name}{}{}", show(&a), show(&b)));
        check_binary("C17", name, &a, &b, true, st)
    } else {
        let name = *t.pick(&un_names());
        let a = gen_val(&mut t);
        st.nontrivial(&format!("{name}{}", show(&a)));
        check_unary("C17", name, &a, true, st)
    }
}

pub fn def() -> PropDef {
    PropDef {
        id: "C17",
        level_text: "every operator of the value table applied to every ordered pair of a catalogue of boundary operands for four instantiations (i32/f64, i64/f32, i8/f32, i16/f64) under catch_unwind; the listed situations must yield an error value (reference interpreter); the same cells through literals folded at parse time and through variables",
        assumptions: vec![
            "the harness is built with overflow checks and debug assertions, and additionally demands the error value, so silent wrapping in release builds is caught too",
            "the empty array has no literal spelling and is only reachable through variables",
        ],
        subs: vec![
            SubCheck {
                name: "error_cells",
                rule: "i32/f64: all catalogue cells; judged where the documented rules demand an error value (overflow, division/remainder by zero, MIN % -1, -MIN, abs(MIN), invalid casts of NaN/inf/out-of-range floats, out-of-range shifts and powers, wrong operand kinds, error operands); non-trivial = a boundary operand",
                kind: Kind::Indexed { n: n_catalogue, f: error_cells, exhaustive: true },
            },
            SubCheck { name: "totality_i32_f64", rule: "no panic: every operator x every ordered pair of 55 special operands (incl. the floats at the ends of the integer type's range and their neighbours, and arrays of 200 and 33000 elements), Val<i32,f64>", kind: Kind::Indexed { n: n_tot, f: totality_i32_f64, exhaustive: true } },
            SubCheck { name: "totality_i64_f32", rule: "no panic: the same for Val<i64,f32>", kind: Kind::Indexed { n: n_tot, f: totality_i64_f32, exhaustive: true } },
            SubCheck { name: "totality_i8_f32", rule: "no panic: the same for Val<i8,f32>", kind: Kind::Indexed { n: n_tot, f: totality_i8_f32, exhaustive: true } },
            SubCheck { name: "totality_i16_f64", rule: "no panic: the same for Val<i16,f64>", kind: Kind::Indexed { n: n_tot, f: totality_i16_f64, exhaustive: true } },
            SubCheck {
                name: "through_literals",
                rule: "every catalogue cell as text: `(lit) op (lit)`, `op(lit, lit)`, `op(lit)` folded by parse_val at parse time, and `x op y` with the operands as variables; no panic, accepted, and equal to the direct application",
                kind: Kind::Indexed { n: n_catalogue, f: through_literals, exhaustive: true },
            },
            SubCheck {
                name: "random_total",
                rule: "random operands (raw bit patterns, near MIN/MAX, arrays, none, error): no panic and error value where demanded",
                kind: Kind::Tape { len: 24, quick: 300_000, thorough: 5_000_000, f: random_total },
            },
        ],
    }
}
