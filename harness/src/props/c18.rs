//! C18 — Derivatives of value-typed and piecewise expressions.
use super::PropDef;
use crate::calc::{close, ct_has_var, ct_vars, CT, MARGIN, VAR_NAMES};
use crate::runner::*;
use crate::tape::Tape;
use crate::tcase::ex_msg;
use exmex::prelude::*;
use exmex::{parse_val, Val};
use serde_json::json;

const FLOAT_LITS: [&str; 6] = ["0.5", "2.0", "1.5", "3.0", "0.25", "1.0"];
const INT_LITS: [&str; 5] = ["2", "3", "1", "4", "5"];
const FUNCS: [&str; 12] = ["sin", "cos", "exp", "sqrt", "ln", "tanh", "atan", "sinh", "cosh", "log2", "log10", "tan"];
const CMPS: [&str; 6] = ["<", "<=", ">", ">=", "==", "!="];

fn vprio(op: &str) -> i64 {
    match op {
        "^" => 6,
        "/" => 5,
        "*" => 4,
        "+" | "-" => 3,
        "<" | "<=" | ">" | ">=" | "==" | "!=" => 1,
        _ => 0, // if else
    }
}

struct Gen<'a, 'b> {
    t: &'a mut Tape<'b>,
    nvars: usize,
    piecewise_pct: u32,
    excluded_int_divisor: u64,
    excluded_int_base: u64,
}

impl<'a, 'b> Gen<'a, 'b> {
    fn int_const(&mut self) -> CT {
        match self.t.choose(5) {
            0 | 1 | 2 => CT::Num(self.t.pick(&INT_LITS).to_string()),
            3 => CT::Bin("+", Box::new(CT::Num("1".into())), Box::new(CT::Num(self.t.pick(&INT_LITS).to_string()))),
            _ => CT::Bin("/", Box::new(CT::Num("7".into())), Box::new(CT::Num("2".into()))),
        }
    }
    fn var(&mut self) -> CT {
        CT::Var(self.t.choose(self.nvars))
    }
    /// float-typed expression
    fn float(&mut self, size: usize, depth: usize) -> CT {
        if size <= 1 {
            return if self.t.chance(65) { self.var() } else { CT::Num(self.t.pick(&FLOAT_LITS).to_string()) };
        }
        if depth < 3 && size >= 4 && self.t.chance(self.piecewise_pct) {
            return self.piecewise(size, depth);
        }
        match self.t.weighted(&[5, 2, 2, 2, 1]) {
            0 => {
                // F op F
                let l = 1 + self.t.choose(size - 1);
                let op = *self.t.pick(&["+", "-", "*", "/"]);
                let a = self.float(l, depth);
                let b = self.float(size - l, depth);
                CT::Bin(op, Box::new(a), Box::new(b))
            }
            1 => {
                // mixed with an integer constant (promotion)
                let op = *self.t.pick(&["+", "-", "*"]);
                let f = self.float(size - 1, depth);
                let i = self.int_const();
                if self.t.chance(50) {
                    CT::Bin(op, Box::new(f), Box::new(i))
                } else if self.t.chance(20) {
                    // int / float is fine (the divisor is float-typed)
                    CT::Bin("/", Box::new(i), Box::new(f))
                } else {
                    CT::Bin(op, Box::new(i), Box::new(f))
                }
            }
            2 => {
                let f = *self.t.pick(&FUNCS);
                CT::Un(f, Box::new(self.float(size - 1, depth)))
            }
            3 => {
                // powers: float base; exponent int literal, float literal or variable-dependent
                let base = self.float(size - 1, depth);
                let e = match self.t.choose(4) {
                    0 => CT::Num(["2", "3"][self.t.choose(2)].to_string()),
                    1 => CT::Num(["2.0", "0.5", "1.5"][self.t.choose(3)].to_string()),
                    2 => self.var(),
                    _ => CT::Bin("*", Box::new(CT::Num("0.5".into())), Box::new(self.var())),
                };
                CT::Bin("^", Box::new(base), Box::new(e))
            }
            _ => CT::Un("-", Box::new(self.float(size - 1, depth))),
        }
    }
    fn piecewise(&mut self, size: usize, depth: usize) -> CT {
        let third = (size / 3).max(1);
        let a = self.float(third, depth + 1);
        let b = self.float(third, depth + 1);
        // condition on the variables: the left side contains a variable by construction
        let mut l = self.float(third.max(1), depth + 1);
        if !ct_has_var(&l) {
            l = CT::Bin("+", Box::new(l), Box::new(self.var()));
        }
        let r = if self.t.chance(50) { CT::Num(self.t.pick(&FLOAT_LITS).to_string()) } else { let k = 1 + self.t.choose(2); self.float(k, depth + 1) };
        let cmp = *self.t.pick(&CMPS);
        let c = CT::Bin(cmp, Box::new(l), Box::new(r));
        CT::Bin("else", Box::new(CT::Bin("if", Box::new(a), Box::new(c))), Box::new(b))
    }
}

fn render(t: &CT, tape: &mut Tape) -> String {
    match t {
        CT::Num(s) => s.clone(),
        CT::Var(i) => VAR_NAMES[*i].to_string(),
        CT::Un(o, a) => format!("{o}({})", render(a, tape)),
        CT::Bin(o, a, b) => {
            let p = vprio(o);
            let ls = match **a {
                CT::Bin(oa, ..) if vprio(oa) < p => format!("({})", render(a, tape)),
                _ => render(a, tape),
            };
            let rs = match **b {
                CT::Bin(ob, ..) if vprio(ob) <= p => format!("({})", render(b, tape)),
                _ => render(b, tape),
            };
            let alpha = o.chars().next().unwrap().is_alphabetic();
            let sp = if alpha || tape.chance(60) { " " } else { "" };
            format!("{ls}{sp}{o}{sp}{rs}")
        }
    }
}

// reference semantics of Val expressions with a forward-mode derivative
#[derive(Clone, Debug)]
enum VN {
    I(i64),
    F(f64, f64),
    B(bool),
    Nothing,
}

fn to_f(v: &VN) -> Option<(f64, f64)> {
    match v {
        VN::I(i) => Some((*i as f64, 0.0)),
        VN::F(v, d) => Some((*v, *d)),
        _ => None,
    }
}

struct Ev {
    ok: bool,
    branches: Vec<bool>,
}

fn func(name: &str, x: f64, ok: &mut bool) -> (f64, f64) {
    match name {
        "sqrt" | "ln" | "log2" | "log10" => {
            if !(x >= MARGIN) {
                *ok = false
            }
        }
        "tan" => {
            if !(x.cos().abs() >= MARGIN) {
                *ok = false
            }
        }
        "exp" | "sinh" | "cosh" => {
            if !(x.abs() <= 12.0) {
                *ok = false
            }
        }
        _ => {}
    }
    match name {
        "sin" => (x.sin(), x.cos()),
        "cos" => (x.cos(), -x.sin()),
        "exp" => (x.exp(), x.exp()),
        "sqrt" => (x.sqrt(), 0.5 / x.sqrt()),
        "ln" => (x.ln(), 1.0 / x),
        "tanh" => (x.tanh(), 1.0 - x.tanh() * x.tanh()),
        "atan" => (x.atan(), 1.0 / (1.0 + x * x)),
        "sinh" => (x.sinh(), x.cosh()),
        "cosh" => (x.cosh(), x.sinh()),
        "log2" => (x.log2(), 1.0 / (x * std::f64::consts::LN_2)),
        "log10" => (x.log10(), 1.0 / (x * std::f64::consts::LN_10)),
        "tan" => (x.tan(), 1.0 / (x.cos() * x.cos())),
        _ => {
            *ok = false;
            (f64::NAN, f64::NAN)
        }
    }
}

fn eval(t: &CT, point: &[f64], wrt: usize, ev: &mut Ev) -> VN {
    let r = match t {
        CT::Num(s) => {
            if s.contains('.') {
                VN::F(s.parse().unwrap(), 0.0)
            } else {
                VN::I(s.parse().unwrap())
            }
        }
        CT::Var(i) => VN::F(point[*i], if *i == wrt { 1.0 } else { 0.0 }),
        CT::Un(o, a) => {
            let a = eval(a, point, wrt, ev);
            match (*o, &a) {
                ("-", VN::I(i)) => VN::I(-i),
                ("-", VN::F(v, d)) => VN::F(-v, -d),
                (name, VN::F(v, d)) => {
                    let (fv, fd) = func(name, *v, &mut ev.ok);
                    VN::F(fv, fd * d)
                }
                _ => {
                    ev.ok = false;
                    VN::Nothing
                }
            }
        }
        CT::Bin(o, a, b) => {
            let b_has_var = ct_has_var(b);
            let x = eval(a, point, wrt, ev);
            let y = eval(b, point, wrt, ev);
            match *o {
                "if" => match y {
                    VN::B(true) => {
                        ev.branches.push(true);
                        x
                    }
                    VN::B(false) => {
                        ev.branches.push(false);
                        VN::Nothing
                    }
                    _ => {
                        ev.ok = false;
                        VN::Nothing
                    }
                },
                "else" => match x {
                    VN::Nothing => y,
                    other => other,
                },
                "<" | "<=" | ">" | ">=" | "==" | "!=" => match (to_f(&x), to_f(&y)) {
                    (Some((l, _)), Some((r, _))) => {
                        if (l - r).abs() < 1e-3 {
                            ev.ok = false; // branch boundary
                        }
                        VN::B(match *o {
                            "<" => l < r,
                            "<=" => l <= r,
                            ">" => l > r,
                            ">=" => l >= r,
                            "==" => l == r,
                            _ => l != r,
                        })
                    }
                    _ => {
                        ev.ok = false;
                        VN::Nothing
                    }
                },
                "+" | "-" | "*" => match (&x, &y) {
                    (VN::I(p), VN::I(q)) => {
                        let r = match *o {
                            "+" => p.checked_add(*q),
                            "-" => p.checked_sub(*q),
                            _ => p.checked_mul(*q),
                        };
                        match r {
                            Some(v) if v.abs() < (1 << 30) => VN::I(v),
                            _ => {
                                ev.ok = false;
                                VN::Nothing
                            }
                        }
                    }
                    _ => match (to_f(&x), to_f(&y)) {
                        (Some((p, dp)), Some((q, dq))) => match *o {
                            "+" => VN::F(p + q, dp + dq),
                            "-" => VN::F(p - q, dp - dq),
                            _ => VN::F(p * q, dp * q + p * dq),
                        },
                        _ => {
                            ev.ok = false;
                            VN::Nothing
                        }
                    },
                },
                "/" => match (&x, &y) {
                    (VN::I(p), VN::I(q)) => {
                        if *q == 0 {
                            ev.ok = false;
                            VN::Nothing
                        } else {
                            VN::I(p / q)
                        }
                    }
                    _ => match (to_f(&x), to_f(&y)) {
                        (Some((p, dp)), Some((q, dq))) => {
                            if !(q.abs() >= MARGIN) {
                                ev.ok = false;
                            }
                            VN::F(p / q, (dp * q - p * dq) / (q * q))
                        }
                        _ => {
                            ev.ok = false;
                            VN::Nothing
                        }
                    },
                },
                "^" => match (&x, &y) {
                    (VN::F(p, dp), VN::I(n)) => {
                        if *n < 1 && !(p.abs() >= MARGIN) {
                            ev.ok = false;
                        }
                        let n = *n as i32;
                        VN::F(p.powi(n), if n == 0 { 0.0 } else { n as f64 * p.powi(n - 1) * dp })
                    }
                    (VN::F(p, dp), VN::F(q, dq)) => {
                        if !b_has_var && q.fract() == 0.0 && q.abs() <= 8.0 && *q >= 1.0 {
                            // float literal with integral value: x^2.0
                            VN::F(p.powf(*q), q * p.powf(q - 1.0) * dp)
                        } else {
                            if !(*p >= MARGIN) || !(q.abs() <= 8.0) {
                                ev.ok = false;
                            }
                            let v = p.powf(*q);
                            VN::F(v, q * p.powf(q - 1.0) * dp + v * p.ln() * dq)
                        }
                    }
                    _ => {
                        ev.ok = false;
                        VN::Nothing
                    }
                },
                _ => {
                    ev.ok = false;
                    VN::Nothing
                }
            }
        }
    };
    if let VN::F(v, d) = &r {
        if !v.is_finite() || !d.is_finite() || v.abs() > 1e6 || d.abs() > 1e6 {
            ev.ok = false;
        }
    }
    r
}

fn has_piecewise(t: &CT) -> bool {
    match t {
        CT::Bin(o, a, b) => *o == "if" || has_piecewise(a) || has_piecewise(b),
        CT::Un(_, a) => has_piecewise(a),
        _ => false,
    }
}
fn nesting(t: &CT) -> usize {
    match t {
        CT::Bin(o, a, b) => (if *o == "if" { 1 } else { 0 }) + nesting(a).max(nesting(b)),
        CT::Un(_, a) => nesting(a),
        _ => 0,
    }
}

fn piecewise(tape: &[u32], st: &mut Stats) -> CaseResult {
    let mut t = Tape::new(tape);
    let nvars = 1 + t.choose(2);
    let size = 2 + t.choose(12);
    let piecewise_pct = [60u32, 35, 0][t.weighted(&[6, 3, 1])];
    let tree = {
        let mut g = Gen { t: &mut t, nvars, piecewise_pct, excluded_int_divisor: 0, excluded_int_base: 0 };
        let mut tr = g.float(size, 0);
        let _ = (g.excluded_int_divisor, g.excluded_int_base);
        // one case in twelve: inside 4-9 nested wrappers 1.0+2.0*( ... )
        if g.t.chance(8) {
            let k = 4 + g.t.choose(6);
            for _ in 0..k {
                tr = CT::Bin("+", Box::new(CT::Num("1.0".into())), Box::new(CT::Bin("*", Box::new(CT::Num("2.0".into())), Box::new(tr))));
            }
        }
        tr
    };
    st.excluded("by construction: integer-typed divisors (known finding F13) are never generated");
    st.excluded("by construction: integer-typed bases under variable exponents (known finding F14) are never generated");
    let mut used = vec![];
    ct_vars(&tree, &mut used);
    used.sort_by_key(|i| VAR_NAMES[*i]);
    if used.is_empty() {
        st.excluded("expression without variables");
        return Ok(());
    }
    let names: Vec<String> = used.iter().map(|i| VAR_NAMES[*i].to_string()).collect();
    let text = render(&tree, &mut t);
    let wrt_pos = t.choose(used.len());
    let wrt = used[wrt_pos];
    // points
    let mut points: Vec<Vec<f64>> = vec![];
    let mut refs: Vec<f64> = vec![];
    let mut senss: Vec<f64> = vec![];
    let mut branch_sigs: std::collections::BTreeSet<Vec<bool>> = Default::default();
    let mut tries = 0;
    while points.len() < 8 && tries < 30 {
        tries += 1;
        let full: Vec<f64> = (0..VAR_NAMES.len())
            .map(|_| match t.choose(3) {
                0 => 0.2 + t.unit_f64() * 2.5,
                1 => -2.0 + t.unit_f64() * 4.0,
                _ => 0.1 + t.unit_f64() * 1.2,
            })
            .collect();
        let mut ev = Ev { ok: true, branches: vec![] };
        let r = eval(&tree, &full, wrt, &mut ev);
        if let (true, VN::F(_, d)) = (ev.ok, &r) {
            let f = |q: &[f64]| {
                let mut e2 = Ev { ok: true, branches: vec![] };
                match eval(&tree, q, wrt, &mut e2) {
                    VN::F(_, dd) if e2.ok => Some(dd),
                    _ => None,
                }
            };
            if let Some(sens) = crate::calc::sensitivity(&f, &full) {
                points.push(used.iter().map(|i| full[*i]).collect());
                refs.push(*d);
                senss.push(sens);
                branch_sigs.insert(ev.branches.clone());
            }
        }
    }
    let pw = has_piecewise(&tree);
    st.class_if(pw, "piecewise expression");
    st.class_if(nesting(&tree) >= 2, "nested piecewise");
    st.class_if(!pw, "no piecewise term (plain value-typed arithmetic)");
    st.class_if(branch_sigs.len() >= 2, "both branches selected over the sampled points");
    if points.is_empty() {
        st.class("vacuous: no interior point off the branch boundaries");
    }
    let distinct_ders = refs.iter().any(|r| (r - refs[0]).abs() > 1e-9);
    if pw && branch_sigs.len() >= 2 && distinct_ders {
        if st.nontrivial(&format!("{text}|{wrt}|{}", t.consumed() % 2)) && st.want_sample() {
            st.sample(json!({"text": text, "wrt": VAR_NAMES[wrt], "point": points[0], "reference": refs[0]}));
        }
    }
    let describe = || json!({"text": text, "wrt": VAR_NAMES[wrt], "vars": names});
    let deep = t.chance(50);
    st.class(if deep { "form: DeepEx<Val>::parse" } else { "form: parse_val (flat)" });
    macro_rules! go {
        ($e:expr) => {{
            let e = $e;
            let anames = e.var_names().to_vec();
            let e0 = e.clone();
            if anames != names {
                return Err(format!("var_names {anames:?}, expected {names:?}"));
            }
            let d = ex_msg(e.partial(wrt_pos))?;
            if d.var_names() != &anames[..] {
                return Err(format!("derivative lists {:?}, antiderivative {anames:?}", d.var_names()));
            }
            let mut out = vec![];
            for p in &points {
                let v: Vec<Val<i32, f64>> = p.iter().map(|x| Val::Float(*x)).collect();
                out.push(ex_msg(d.eval(&v))?);
            }
            // second derivative: differentiating the derivative again agrees with one call for order 2
            if let (Ok(two_step), Ok(one_call)) = (d.clone().partial(wrt_pos), e0.partial_nth(wrt_pos, 2)) {
                for p in &points {
                    let v: Vec<Val<i32, f64>> = p.iter().map(|x| Val::Float(*x)).collect();
                    if let (Ok(a), Ok(b)) = (two_step.eval(&v), one_call.eval(&v)) {
                        let n = |x: &Val<i32, f64>| match x {
                            Val::Float(f) => Some(*f),
                            Val::Int(i) => Some(*i as f64),
                            _ => None,
                        };
                        if let (Some(x), Some(y)) = (n(&a), n(&b)) {
                            if x.is_finite() && y.is_finite() && (x - y).abs() > 1e-6 * (1.0 + x.abs().max(y.abs())) {
                                return Err(format!("second derivative at {p:?}: partial(..).partial(..) gives {x}, partial_nth(.., 2) gives {y}"));
                            }
                        }
                    }
                }
            }
            Ok((anames, out, d.unparse().to_string()))
        }};
    }
    let res = guard(|| -> Result<(Vec<String>, Vec<Val<i32, f64>>, String), String> {
        if deep {
            go!(ex_msg(exmex::DeepEx::<Val<i32, f64>, exmex::ValOpsFactory<i32, f64>, exmex::ValMatcher>::parse(&text))?)
        } else {
            go!(ex_msg(parse_val::<i32, f64>(&text))?)
        }
    });
    match res {
        Err(p) => Err(fail("C18/panic", format!("partial of `{text}` panics: {p}"), describe())),
        Ok(Err(e)) => Err(fail("C18/error", format!("partial of `{text}` w.r.t. {} fails: {e}", VAR_NAMES[wrt]), describe())),
        Ok(Ok((_, vals, dtext))) => {
            for (k, v) in vals.iter().enumerate() {
                let num = match v {
                    Val::Float(x) => Some(*x),
                    Val::Int(i) => Some(*i as f64),
                    _ => None,
                };
                match num {
                    Some(x) if crate::calc::close_cond(x, refs[k], 1e-6, senss[k]) => {}
                    _ => {
                        return Err(fail(
                            if pw { "C18/piecewise-derivative" } else { "C18/value-derivative" },
                            format!("d/d{} of `{text}` at {:?}: library {v:?} (`{dtext}`), derivative of the selected branch {}", VAR_NAMES[wrt], points[k], refs[k]),
                            describe(),
                        ))
                    }
                }
            }
            Ok(())
        }
    }
}

// ---------------------------------------------------------------------------------------------
// known findings F13 / F14: listed inputs

const KNOWN: [(&str, &str, f64, f64); 4] = [
    ("F13-int-divisor", "x/2", 1.0, 0.5),
    ("F13-int-divisor", "(x+1)/2", 1.0, 0.5),
    ("F14-int-base-variable-exponent", "3 ^ ((0.5) if x < 0 else 2)", 1.0, 0.0),
    ("F14-int-base-variable-exponent", "2 ^ ((1.5) if x > 5.0 else 3)", 1.0, 0.0),
];
fn n_known(_: Tier) -> u64 {
    KNOWN.len() as u64
}
fn known_val_findings(i: u64, st: &mut Stats) -> CaseResult {
    let (sig, text, x, want) = KNOWN[i as usize];
    st.nontrivial(text);
    st.sample(json!({"text": text, "x": x, "true_derivative": want, "note": "listed input of a known finding"}));
    let r = guard(|| -> Result<Val<i32, f64>, String> { ex_msg(ex_msg(ex_msg(parse_val::<i32, f64>(text))?.partial(0))?.eval(&[Val::Float(x)])) });
    let ok = match &r {
        Ok(Ok(Val::Float(v))) => close(*v, want, 1e-9),
        Ok(Ok(Val::Int(v))) => close(*v as f64, want, 1e-9),
        _ => false,
    };
    if ok {
        Ok(())
    } else {
        Err(fail(sig, format!("d/dx of `{text}` at x={x}: library gives {r:?}, true derivative {want}"), json!({"text": text, "x": x})))
    }
}

// ---------------------------------------------------------------------------------------------
// closed-form families over the value type: scaled monomials at float points (relative
// comparison), integer polynomials at integer points (integers and floats mixed)

type VV = Val<i32, f64>;
fn vnum(v: &VV) -> Option<f64> {
    match v {
        Val::Int(i) => Some(*i as f64),
        Val::Float(f) => Some(*f),
        _ => None,
    }
}
/// first and second derivative d/dx through the flat and the deep value-typed routes
fn val_derivatives(text: &str, pts: &[Vec<VV>]) -> Result<Vec<(&'static str, Vec<VV>, Vec<VV>)>, String> {
    let mut out = vec![];
    let ev = |e: &dyn Fn(&[VV]) -> exmex::ExResult<VV>| -> Result<Vec<VV>, String> { pts.iter().map(|p| ex_msg(e(p))).collect() };
    let f = ex_msg(parse_val::<i32, f64>(text))?;
    let f1 = ex_msg(f.clone().partial(0))?;
    let f2 = ex_msg(f1.clone().partial(0))?;
    out.push(("parse_val: partial, .partial", ev(&|p| f1.eval(p))?, ev(&|p| f2.eval(p))?));
    let d = ex_msg(exmex::DeepEx::<VV, exmex::ValOpsFactory<i32, f64>, exmex::ValMatcher>::parse(text))?;
    let d1 = ex_msg(d.clone().partial(0))?;
    let d2 = ex_msg(d.partial_nth(0, 2))?;
    out.push(("DeepEx<Val>: partial / partial_nth(0,2)", ev(&|p| d1.eval(p))?, ev(&|p| d2.eval(p))?));
    Ok(out)
}
fn n_mono_val(_: Tier) -> u64 {
    (super::c05::FORMS.len() * super::c05::SCALES.len()) as u64
}
fn scaled_monomials_val(i: u64, st: &mut Stats) -> CaseResult {
    use super::c05::{rel_close, FORMS, MONO_POINTS, SCALES};
    let (form, lit) = (&FORMS[i as usize / SCALES.len()], SCALES[i as usize % SCALES.len()]);
    let c: f64 = lit.parse().unwrap();
    let text = form.0.replace("{c}", lit);
    st.nontrivial(&text);
    let describe = || json!({"text": text, "constant": c});
    let has_y = text.contains('y');
    let pts: Vec<Vec<VV>> = MONO_POINTS.iter().map(|(x, y)| if has_y { vec![Val::Float(*x), Val::Float(*y)] } else { vec![Val::Float(*x)] }).collect();
    match guard(|| val_derivatives(&text, &pts)) {
        Err(p) => Err(fail("C18/scaled/panic", format!("differentiating `{text}` panics: {p}"), describe())),
        Ok(Err(e)) => Err(fail("C18/scaled/error", format!("`{text}` is differentiable but fails: {e}"), describe())),
        Ok(Ok(list)) => {
            for (route, firsts, seconds) in list {
                for (k, (x, y)) in MONO_POINTS.iter().enumerate() {
                    for (order, got, want) in [("d/dx", &firsts[k], (form.1)(c, *x, *y)), ("d2/dx2", &seconds[k], (form.2)(c, *x, *y))] {
                        match vnum(got) {
                            Some(g) if rel_close(g, want) => {}
                            _ => {
                                return Err(fail(
                                    "C18/scaled/derivative",
                                    format!("{route}: {order} of `{text}` at x={x}, y={y}: library {got:?}, closed form {want}"),
                                    describe(),
                                ))
                            }
                        }
                    }
                }
            }
            Ok(())
        }
    }
}

type IntForm = (&'static str, fn(f64, f64) -> f64, fn(f64, f64) -> f64);
const INT_FORMS: [IntForm; 8] = [
    ("2*x^3", |x, _| 6.0 * x * x, |x, _| 12.0 * x),
    ("x^4*y^3-7*x^3+y^5", |x, y| 4.0 * x * x * x * y * y * y - 21.0 * x * x, |x, y| 12.0 * x * x * y * y * y - 42.0 * x),
    ("x*x*x", |x, _| 3.0 * x * x, |x, _| 6.0 * x),
    ("(x+1)^3", |x, _| 3.0 * (x + 1.0) * (x + 1.0), |x, _| 6.0 * (x + 1.0)),
    ("3*x^2*y", |x, y| 6.0 * x * y, |_, y| 6.0 * y),
    ("x^5", |x, _| 5.0 * x * x * x * x, |x, _| 20.0 * x * x * x),
    ("(x*y)^2-x", |x, y| 2.0 * x * y * y - 1.0, |_, y| 2.0 * y * y),
    ("x^3 if y > 0 else x^4", |x, y| if y > 0.0 { 3.0 * x * x } else { 4.0 * x * x * x }, |x, y| if y > 0.0 { 6.0 * x } else { 12.0 * x * x }),
];
const INT_POINTS: [(i32, i32); 4] = [(2, 2), (-3, 1), (1, -2), (4, 3)];
const MAX_WRAP: u64 = 13;
fn n_int_forms(_: Tier) -> u64 {
    INT_FORMS.len() as u64 * 2 * MAX_WRAP
}
/// integer polynomials at integer points, and the same at float points (mixed arithmetic), inside
/// 0-12 nested wrappers 1+2*( ... ) (the derivative scales by 2^k)
fn int_polynomials(i: u64, st: &mut Stats) -> CaseResult {
    let wraps = i % MAX_WRAP;
    let i = i / MAX_WRAP;
    let form = &INT_FORMS[i as usize / 2];
    let as_float = i % 2 == 1;
    let mut text = form.0.to_string();
    for _ in 0..wraps {
        text = format!("1+2*({text})");
    }
    let scale = (1u64 << wraps) as f64;
    st.nontrivial(&format!("{text}|{as_float}"));
    let describe = || json!({"text": text, "points": if as_float { "float" } else { "integer" }});
    let has_y = text.contains('y');
    let mk = |v: i32| -> VV { if as_float { Val::Float(v as f64) } else { Val::Int(v) } };
    let pts: Vec<Vec<VV>> = INT_POINTS.iter().map(|(x, y)| if has_y { vec![mk(*x), mk(*y)] } else { vec![mk(*x)] }).collect();
    match guard(|| val_derivatives(&text, &pts)) {
        Err(p) => Err(fail("C18/int-polynomial/panic", format!("differentiating `{text}` panics: {p}"), describe())),
        Ok(Err(e)) => Err(fail("C18/int-polynomial/error", format!("`{text}` is differentiable but differentiation or evaluation at {} points fails: {e}", if as_float { "float" } else { "integer" }), describe())),
        Ok(Ok(list)) => {
            for (route, firsts, seconds) in list {
                for (k, (x, y)) in INT_POINTS.iter().enumerate() {
                    for (order, got, want) in [("d/dx", &firsts[k], scale * (form.1)(*x as f64, *y as f64)), ("d2/dx2", &seconds[k], scale * (form.2)(*x as f64, *y as f64))] {
                        if vnum(got) != Some(want) {
                            return Err(fail(
                                "C18/int-polynomial/derivative",
                                format!("{route}: {order} of `{text}` at x={x}, y={y} ({} values): library {got:?}, exact value {want}", if as_float { "float" } else { "integer" }),
                                describe(),
                            ));
                        }
                    }
                }
            }
            Ok(())
        }
    }
}

pub fn def() -> PropDef {
    PropDef {
        id: "C18",
        level_text: "generated value-typed expressions with nested `a if c else b` terms, integer and float literals mixed, differentiated by the library and compared at points off the branch boundaries with a Val-aware forward-mode reference (integer arithmetic stays integer, comparison selects the branch, derivative of the selected branch)",
        assumptions: vec![
            "conditions mention a variable (variable-free comparisons are folded to literals; outside the quantifier)",
            "by construction divisors are float-typed and bases under variable exponents are float-typed (known findings F13, F14; their listed inputs are replayed)",
            "points within 1e-3 of a branch boundary or outside the domain margins are not judged; tolerance 1e-6",
        ],
        subs: vec![
            SubCheck {
                name: "piecewise",
                rule: "tape -> float-typed tree(2-13 nodes; + - * / ^ functions, int/float literals, int constant sub-trees incl. 7/2, piecewise terms nested up to depth 3 inside arithmetic, branches and exponents) x variable x up to 8 points; non-trivial = piecewise, both branches selected over the points, derivative differs between points; distinct by text+variable",
                kind: Kind::Tape { len: 300, quick: 10_000, thorough: 500_000, f: piecewise },
            },
            SubCheck {
                name: "scaled_monomials",
                rule: "the 10 closed-form families of C05 x 6 constants from 1e-50 to 1e17 over the value type (parse_val and DeepEx<Val>), first and second derivative at 3 float points, relative comparison 1e-11",
                kind: Kind::Indexed { n: n_mono_val, f: scaled_monomials_val, exhaustive: true },
            },
            SubCheck {
                name: "int_polynomials",
                rule: "8 integer polynomials (powers up to 5, products, one piecewise) inside 0-12 nested wrappers 1+2*(...) x {integer, float} points x 4 points: first and second derivative equal the exact value (Int or Float), never an error value",
                kind: Kind::Indexed { n: n_int_forms, f: int_polynomials, exhaustive: true },
            },
            SubCheck {
                name: "known_val_findings",
                rule: "listed inputs of known findings F13 (integer-valued divisor: x/2) and F14 (integer base under a piecewise exponent)",
                kind: Kind::Indexed { n: n_known, f: known_val_findings, exhaustive: false },
            },
        ],
    }
}
