//! C19 — Default float operators and constants compute the functions they name.
use super::PropDef;
use crate::runner::*;
use crate::tape::Tape;
use crate::tcase::ex_msg;
use exmex::prelude::*;
use exmex::{DeepEx, FloatOpsFactory, MakeOperators};
use serde_json::json;

// independent table: documented name -> Rust primitive
macro_rules! reference_tables {
    ($T:ty, $bin:ident, $un:ident, $cst:ident, $consts:path) => {
        pub fn $bin(name: &str) -> Option<fn($T, $T) -> $T> {
            Some(match name {
                "^" => |a, b| a.powf(b),
                "*" => |a, b| a * b,
                "/" => |a, b| a / b,
                "+" => |a, b| a + b,
                "-" => |a, b| a - b,
                "atan2" => |y, x| y.atan2(x),
                "min" => |a, b| a.min(b),
                "max" => |a, b| a.max(b),
                _ => return None,
            })
        }
        pub fn $un(name: &str) -> Option<fn($T) -> $T> {
            Some(match name {
                "+" => |a| a,
                "-" => |a| -a,
                "abs" => |a| a.abs(),
                "signum" => |a| a.signum(),
                "sin" => |a| a.sin(),
                "cos" => |a| a.cos(),
                "tan" => |a| a.tan(),
                "asin" => |a| a.asin(),
                "acos" => |a| a.acos(),
                "atan" => |a| a.atan(),
                "sinh" => |a| a.sinh(),
                "cosh" => |a| a.cosh(),
                "tanh" => |a| a.tanh(),
                "asinh" => |a| a.asinh(),
                "acosh" => |a| a.acosh(),
                "atanh" => |a| a.atanh(),
                "floor" => |a| a.floor(),
                "round" => |a| a.round(),
                "ceil" => |a| a.ceil(),
                "trunc" => |a| a.trunc(),
                "fract" => |a| a.fract(),
                "exp" => |a| a.exp(),
                "sqrt" => |a| a.sqrt(),
                "cbrt" => |a| a.cbrt(),
                "ln" => |a| a.ln(),
                "log" => |a| a.ln(),
                "log2" => |a| a.log2(),
                "log10" => |a| a.log10(),
                _ => return None,
            })
        }
        pub fn $cst(name: &str) -> Option<$T> {
            use $consts as c;
            Some(match name {
                "PI" | "π" => c::PI,
                "E" | "e" => c::E,
                "TAU" | "τ" => c::TAU,
                _ => return None,
            })
        }
    };
}
reference_tables!(f64, ref_bin64, ref_un64, ref_const64, std::f64::consts);
reference_tables!(f32, ref_bin32, ref_un32, ref_const32, std::f32::consts);

pub const BIN_NAMES: [&str; 8] = ["^", "*", "/", "+", "-", "atan2", "min", "max"];
pub const UN_ONLY_NAMES: [&str; 26] = [
    "abs", "signum", "sin", "cos", "tan", "asin", "acos", "atan", "sinh", "cosh", "tanh", "asinh", "acosh", "atanh",
    "floor", "round", "ceil", "trunc", "fract", "exp", "sqrt", "cbrt", "ln", "log2", "log10", "log",
];
pub const CONST_NAMES: [&str; 6] = ["PI", "π", "E", "e", "TAU", "τ"];

fn specials64() -> Vec<f64> {
    vec![
        0.0, -0.0, 1.0, -1.0, 0.5, -0.5, 1.5, -1.5, 2.0, -2.0, 2.5, -2.5, 3.0, 10.0, -10.0, 0.1, std::f64::consts::FRAC_PI_2,
        -std::f64::consts::FRAC_PI_2, std::f64::consts::PI, std::f64::consts::E, 1e-310, -1e-310, f64::MIN_POSITIVE, f64::MAX,
        f64::MIN, f64::INFINITY, f64::NEG_INFINITY, f64::NAN, 0.49999999999999994, 4503599627370497.0, 1e10, -1e10,
        0.9999999, 1.0000001, 100.0, -100.0, 7.5, -7.5, 0.25, 4.0,
    ]
}
fn specials32() -> Vec<f32> {
    vec![
        0.0, -0.0, 1.0, -1.0, 0.5, -0.5, 1.5, -1.5, 2.0, -2.0, 2.5, -2.5, 3.0, 10.0, -10.0, 0.1, std::f32::consts::FRAC_PI_2,
        -std::f32::consts::FRAC_PI_2, std::f32::consts::PI, std::f32::consts::E, 1e-40, -1e-40, f32::MIN_POSITIVE, f32::MAX,
        f32::MIN, f32::INFINITY, f32::NEG_INFINITY, f32::NAN, 0.49999997, 8388609.0, 1e10, -1e10, 0.99999, 1.00001, 100.0,
        -100.0, 7.5, -7.5, 0.25, 4.0,
    ]
}

fn same64(a: f64, b: f64) -> bool {
    if a.is_nan() || b.is_nan() {
        return a.is_nan() && b.is_nan();
    }
    if a.to_bits() == b.to_bits() {
        return true;
    }
    if a.is_infinite() || b.is_infinite() || a == 0.0 || b == 0.0 || a.is_sign_negative() != b.is_sign_negative() {
        return false;
    }
    // within 2 ulp
    (a.to_bits() as i128 - b.to_bits() as i128).abs() <= 2
}
fn same32(a: f32, b: f32) -> bool {
    if a.is_nan() || b.is_nan() {
        return a.is_nan() && b.is_nan();
    }
    if a.to_bits() == b.to_bits() {
        return true;
    }
    if a.is_infinite() || b.is_infinite() || a == 0.0 || b == 0.0 || a.is_sign_negative() != b.is_sign_negative() {
        return false;
    }
    (a.to_bits() as i64 - b.to_bits() as i64).abs() <= 2
}

// ---------------------------------------------------------------------------------------------

fn n_one(_: Tier) -> u64 {
    1
}

/// names, roles and constants of the table are the documented ones
fn table_shape(_i: u64, st: &mut Stats) -> CaseResult {
    let check = |ops: Vec<(String, bool, bool, bool)>, ty: &str| -> CaseResult {
        let mut names: Vec<&str> = ops.iter().map(|o| o.0.as_str()).collect();
        names.sort();
        let mut want: Vec<&str> = BIN_NAMES.iter().chain(UN_ONLY_NAMES.iter()).chain(CONST_NAMES.iter()).copied().collect();
        want.sort();
        if names != want {
            return Err(fail("C19/table/names", format!("{ty}: operator names {names:?} differ from the documented list {want:?}"), json!({"type": ty})));
        }
        for (name, has_bin, has_un, is_const) in &ops {
            let exp_bin = BIN_NAMES.contains(&name.as_str());
            let exp_un = UN_ONLY_NAMES.contains(&name.as_str()) || name == "+" || name == "-";
            let exp_c = CONST_NAMES.contains(&name.as_str());
            if (*has_bin, *has_un, *is_const) != (exp_bin, exp_un, exp_c) {
                return Err(fail(
                    "C19/table/roles",
                    format!("{ty}: `{name}` is binary={has_bin} unary={has_un} constant={is_const}, documented: binary={exp_bin} unary={exp_un} constant={exp_c}"),
                    json!({"type": ty, "name": name}),
                ));
            }
        }
        Ok(())
    };
    st.nontrivial("f64");
    st.nontrivial("f32");
    st.sample(json!({"documented_operators": 34, "documented_constants": 6}));
    let o64: Vec<_> =
        FloatOpsFactory::<f64>::make().iter().map(|o| (o.repr().to_string(), o.has_bin(), o.has_unary(), o.constant().is_some())).collect();
    check(o64, "f64")?;
    let o32: Vec<_> =
        FloatOpsFactory::<f32>::make().iter().map(|o| (o.repr().to_string(), o.has_bin(), o.has_unary(), o.constant().is_some())).collect();
    check(o32, "f32")?;
    for name in CONST_NAMES {
        let c64 = FloatOpsFactory::<f64>::make().iter().find(|o| o.repr() == name).and_then(|o| o.constant());
        if c64.map(|c| c.to_bits()) != ref_const64(name).map(|c| c.to_bits()) {
            return Err(fail("C19/constant/f64", format!("constant {name} = {c64:?}, expected {:?}", ref_const64(name)), json!({"name": name})));
        }
        let c32 = FloatOpsFactory::<f32>::make().iter().find(|o| o.repr() == name).and_then(|o| o.constant());
        if c32.map(|c| c.to_bits()) != ref_const32(name).map(|c| c.to_bits()) {
            return Err(fail("C19/constant/f32", format!("constant {name} = {c32:?}, expected {:?}", ref_const32(name)), json!({"name": name})));
        }
        // through the parser
        match (exmex::eval_str::<f64>(name), exmex::eval_str::<f32>(name)) {
            (Ok(a), Ok(b)) if Some(a.to_bits()) == ref_const64(name).map(|c| c.to_bits()) && Some(b.to_bits()) == ref_const32(name).map(|c| c.to_bits()) => {}
            other => return Err(fail("C19/constant/parsed", format!("eval_str(`{name}`) = {other:?}"), json!({"name": name}))),
        }
    }
    Ok(())
}

macro_rules! direct_checks {
    ($T:ty, $fname_un:ident, $fname_bin:ident, $ref_un:ident, $ref_bin:ident, $same:ident, $ty:literal) => {
        fn $fname_un(name: &str, x: $T) -> CaseResult {
            let ops = FloatOpsFactory::<$T>::make();
            let op = ops.iter().find(|o| o.repr() == name).ok_or_else(|| fail("C19/missing", format!("operator {name} missing"), json!({})))?;
            let f = op.unary().map_err(|e| fail("C19/missing", format!("{name}: {}", e.msg()), json!({})))?;
            let got = f(x);
            let want = $ref_un(name).unwrap()(x);
            if !$same(got, want) {
                return Err(fail(
                    &format!("C19/{}/unary/{name}", $ty),
                    format!("{}: {name}({x:?}) = {got:?}, the Rust primitive gives {want:?}", $ty),
                    json!({"type": $ty, "operator": name, "argument": format!("{x:?}")}),
                ));
            }
            Ok(())
        }
        fn $fname_bin(name: &str, a: $T, b: $T) -> CaseResult {
            let ops = FloatOpsFactory::<$T>::make();
            let op = ops.iter().find(|o| o.repr() == name).ok_or_else(|| fail("C19/missing", format!("operator {name} missing"), json!({})))?;
            let f = op.bin().map_err(|e| fail("C19/missing", format!("{name}: {}", e.msg()), json!({})))?.apply;
            let got = f(a, b);
            let want = $ref_bin(name).unwrap()(a, b);
            // `min`/`max` of two zeros: the Rust primitive may return either input (std documentation)
            let either_zero = (name == "min" || name == "max") && a == 0.0 && b == 0.0 && got == 0.0;
            if !$same(got, want) && !either_zero {
                return Err(fail(
                    &format!("C19/{}/binary/{name}", $ty),
                    format!("{}: {a:?} {name} {b:?} = {got:?}, the Rust primitive gives {want:?} (argument order as documented)", $ty),
                    json!({"type": $ty, "operator": name, "arguments": [format!("{a:?}"), format!("{b:?}")]}),
                ));
            }
            Ok(())
        }
    };
}
direct_checks!(f64, un_direct64, bin_direct64, ref_un64, ref_bin64, same64, "f64");
direct_checks!(f32, un_direct32, bin_direct32, ref_un32, ref_bin32, same32, "f32");

fn unary_names() -> Vec<&'static str> {
    let mut v: Vec<&'static str> = UN_ONLY_NAMES.to_vec();
    v.push("+");
    v.push("-");
    v
}

fn n_catalogue(_: Tier) -> u64 {
    let s = specials64().len() as u64;
    (unary_names().len() as u64) * s + (BIN_NAMES.len() as u64) * s * s
}

fn catalogue(i: u64, st: &mut Stats) -> CaseResult {
    let s64 = specials64();
    let s32 = specials32();
    let n = s64.len() as u64;
    let uns = unary_names();
    let n_un = uns.len() as u64 * n;
    if i < n_un {
        let name = uns[(i / n) as usize];
        let k = (i % n) as usize;
        if !s64[k].is_finite() || s64[k] == 0.0 {
            st.nontrivial(&format!("{name}:{k}"));
        }
        st.class("unary x special value");
        if st.want_sample() && k == 27 {
            st.sample(json!({"operator": name, "argument": "NaN"}));
        }
        un_direct64(name, s64[k])?;
        un_direct32(name, s32[k])
    } else {
        let j = i - n_un;
        let name = BIN_NAMES[(j / (n * n)) as usize];
        let a = ((j / n) % n) as usize;
        let b = (j % n) as usize;
        if a != b {
            st.nontrivial(&format!("{name}:{a}:{b}"));
        }
        st.class("binary x ordered pair of special values");
        if st.want_sample() && a == 2 && b == 1 {
            st.sample(json!({"operator": name, "arguments": ["1.0", "-0.0"]}));
        }
        bin_direct64(name, s64[a], s64[b])?;
        bin_direct32(name, s32[a], s32[b])
    }
}

fn gen64(t: &mut Tape) -> f64 {
    match t.choose(5) {
        0 => f64::from_bits(((t.raw() as u64) << 32) | t.raw() as u64),
        1 => (t.unit_f64() - 0.5) * 20.0,
        2 => {
            let e = t.choose(600) as i32 - 300;
            (t.unit_f64() + 0.1) * 10f64.powi(e) * if t.chance(50) { -1.0 } else { 1.0 }
        }
        3 => (t.choose(2001) as f64 - 1000.0) / 2.0,
        _ => *t.pick(&specials64()),
    }
}
fn gen32(t: &mut Tape) -> f32 {
    match t.choose(5) {
        0 => f32::from_bits(t.raw()),
        1 => ((t.unit_f64() - 0.5) * 20.0) as f32,
        2 => {
            let e = t.choose(70) as i32 - 35;
            ((t.unit_f64() + 0.1) * 10f64.powi(e)) as f32 * if t.chance(50) { -1.0 } else { 1.0 }
        }
        3 => (t.choose(2001) as f32 - 1000.0) / 2.0,
        _ => *t.pick(&specials32()),
    }
}

fn random_direct(tape: &[u32], st: &mut Stats) -> CaseResult {
    let mut t = Tape::new(tape);
    let uns = unary_names();
    if t.chance(50) {
        let name = *t.pick(&uns);
        let (x, y) = (gen64(&mut t), gen32(&mut t));
        st.class("unary, random argument");
        if st.nontrivial(&format!("{name}{}{}", x.to_bits(), y.to_bits())) && st.want_sample() {
            st.sample(json!({"operator": name, "f64": format!("{x:?}"), "f32": format!("{y:?}")}));
        }
        un_direct64(name, x)?;
        un_direct32(name, y)
    } else {
        let name = *t.pick(&BIN_NAMES);
        let (a, b, c, d) = (gen64(&mut t), gen64(&mut t), gen32(&mut t), gen32(&mut t));
        st.class("binary, random arguments");
        if a.to_bits() != b.to_bits() && st.nontrivial(&format!("{name}{}{}", a.to_bits(), b.to_bits())) && st.want_sample() {
            st.sample(json!({"operator": name, "f64": [format!("{a:?}"), format!("{b:?}")]}));
        }
        bin_direct64(name, a, b)?;
        bin_direct32(name, c, d)
    }
}

/// the same through parsed expressions: infix, call form, juxtaposition; flat and deep
fn parsed(tape: &[u32], st: &mut Stats) -> CaseResult {
    let mut t = Tape::new(tape);
    let uns = unary_names();
    let same_res = |what: &str, text: &str, got: Result<f64, String>, want: f64, args: &[f64]| -> CaseResult {
        match got {
            Ok(g) if same64(g, want) => Ok(()),
            other => Err(fail(
                &format!("C19/parsed/{what}"),
                format!("`{text}` at {args:?} = {other:?}, documented meaning gives {want:?}"),
                json!({"text": text, "arguments": args.iter().map(|a| format!("{a:?}")).collect::<Vec<_>>()}),
            )),
        }
    };
    if t.chance(45) {
        let name = *t.pick(&uns);
        let x = gen64(&mut t);
        let want = ref_un64(name).unwrap()(x);
        let text = match t.choose(4) {
            0 => format!("{name}(x)"),
            1 => format!("{name} x"),
            2 => format!("{name}({{x}})"),
            _ => format!("( {name}(x) )"),
        };
        st.class("unary through the parser");
        if (!x.is_finite() || x == 0.0) && st.nontrivial(&format!("{text}{}", x.to_bits())) && st.want_sample() {
            st.sample(json!({"text": text, "x": format!("{x:?}")}));
        }
        let f = guard(|| ex_msg(ex_msg(exmex::FlatEx::<f64>::parse(&text))?.eval(&[x]))).unwrap_or_else(|p| Err(format!("panic {p}")));
        same_res("unary/flat", &text, f, want, &[x])?;
        let d = guard(|| ex_msg(ex_msg(DeepEx::<f64>::parse(&text))?.eval(&[x]))).unwrap_or_else(|p| Err(format!("panic {p}")));
        same_res("unary/deep", &text, d, want, &[x])
    } else {
        let name = *t.pick(&BIN_NAMES);
        let (a, b) = (gen64(&mut t), gen64(&mut t));
        let want = ref_bin64(name).unwrap()(a, b);
        let text = match t.choose(4) {
            0 => format!("x {name} y"),
            1 => format!("{name}(x, y)"),
            2 => format!("({{x}}) {name} ({{y}})"),
            _ => format!("{name}( x ,y )"),
        };
        st.class("binary through the parser");
        st.class_if(text.contains(','), "call form");
        if a.to_bits() != b.to_bits() && st.nontrivial(&format!("{text}{}{}", a.to_bits(), b.to_bits())) && st.want_sample() {
            st.sample(json!({"text": text, "x": format!("{a:?}"), "y": format!("{b:?}")}));
        }
        // `min`/`max` of two zeros: the Rust primitive may return either input (std documentation)
        let two_zeros = (name == "min" || name == "max") && a == 0.0 && b == 0.0;
        let f = guard(|| ex_msg(ex_msg(exmex::FlatEx::<f64>::parse(&text))?.eval(&[a, b]))).unwrap_or_else(|p| Err(format!("panic {p}")));
        if !(two_zeros && f == Ok(0.0)) {
            same_res("binary/flat", &text, f, want, &[a, b])?;
        }
        let d = guard(|| ex_msg(ex_msg(DeepEx::<f64>::parse(&text))?.eval(&[a, b]))).unwrap_or_else(|p| Err(format!("panic {p}")));
        if !(two_zeros && d == Ok(0.0)) {
            same_res("binary/deep", &text, d, want, &[a, b])?;
        }
        // f32
        let (c, e) = (gen32(&mut t), gen32(&mut t));
        let want32 = ref_bin32(name).unwrap()(c, e);
        let g = guard(|| ex_msg(ex_msg(exmex::parse::<f32>(&text))?.eval(&[c, e]))).unwrap_or_else(|p| Err(format!("panic {p}")));
        match g {
            Ok(v) if same32(v, want32) => Ok(()),
            Ok(v) if (name == "min" || name == "max") && c == 0.0 && e == 0.0 && v == 0.0 => Ok(()),
            other => Err(fail("C19/parsed/binary/f32", format!("`{text}` at ({c:?}, {e:?}) = {other:?}, expected {want32:?}"), json!({"text": text}))),
        }
    }
}

pub fn def() -> PropDef {
    PropDef {
        id: "C19",
        level_text: "every operator and constant of FloatOpsFactory<f32|f64> against an independent table name -> Rust primitive: exhaustive over a catalogue of special values (all ordered pairs for binary operators), random arguments across bit patterns and magnitudes, and through parsed expressions in infix, call and juxtaposed form",
        assumptions: vec![
            "results must be bit-identical or within 2 ulp, with identical NaN-ness, infinities and sign of zero",
            "the reference table was written from the documentation (names, argument order), not from the library source",
        ],
        subs: vec![
            SubCheck {
                name: "table_shape",
                rule: "names and roles (binary/unary/both/constant) of the f32 and f64 tables equal the documented 34 operators and 6 constants; constants bit-exact, also through eval_str",
                kind: Kind::Indexed { n: n_one, f: table_shape, exhaustive: true },
            },
            SubCheck {
                name: "catalogue",
                rule: "28 unary operators x 40 special values + 8 binary operators x all 1600 ordered pairs, f64 and f32; non-trivial = pair with a != b (argument order observable) or non-finite / zero argument",
                kind: Kind::Indexed { n: n_catalogue, f: catalogue, exhaustive: true },
            },
            SubCheck {
                name: "random_direct",
                rule: "operator x arguments drawn from raw bit patterns, uniform small, log-uniform magnitudes, half-integers, specials; non-trivial = distinct (operator, arguments)",
                kind: Kind::Tape { len: 16, quick: 200_000, thorough: 20_000_000, f: random_direct },
            },
            SubCheck {
                name: "parsed",
                rule: "name(x), name x, x name y, name(x, y), parenthesised/braced variants through FlatEx<f64>, DeepEx<f64>, parse<f32> with variables; non-trivial = non-finite/zero argument or a != b",
                kind: Kind::Tape { len: 24, quick: 60_000, thorough: 3_000_000, f: parsed },
            },
        ],
    }
}
