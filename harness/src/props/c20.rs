//! C20 — Expressions are immutable values that can be shared across threads.
use super::PropDef;
use crate::calc::*;
use crate::gen::*;
use crate::runner::*;
use crate::tape::{mix, Tape};
use crate::tcase::*;
use crate::term::{describe_table, set_table, Term};
use exmex::prelude::*;
use exmex::{DeepEx, Val};
use serde_json::{json, Value};
use std::sync::{Arc, Barrier};
use std::time::Instant;

// ---------------------------------------------------------------------------------------------
// 1. evaluation histories on one expression: nothing a caller can do through &self changes it

fn eval_histories(tape: &[u32], st: &mut Stats) -> CaseResult {
    let mut t = Tape::new(tape);
    let cfg = CaseCfg {
        table: TableCfg::default(),
        tree: TreeCfg { max_operands: [8usize, 8, 30, 90][t.choose(4)], lit_pct: 25, unary_pct: 15, ..TreeCfg::default() },
        render: RenderCfg::default(),
        max_vars: 5,
        weird_pct: 5,
    };
    // one case in eight: more than 16 distinct variables (beyond the inline capacity of the name list)
    let many_vars = t.chance(12);
    let case = if many_vars {
        let table = gen_table(&mut t, &cfg.table);
        let nv = 17 + t.choose(10);
        let names: Vec<String> = (0..nv).map(|i| format!("w{:02}", (i * 7) % 31)).collect();
        let bare_ok = names.iter().map(|n| bare_name_ok(n, &table)).collect();
        let pool = VarPool { names, bare_ok };
        let tree = gen_tree(&mut t, &table, pool.names.len(), &TreeCfg { max_operands: 90, lit_pct: 5, unary_pct: 5, ..TreeCfg::default() });
        finish_case(&mut t, table, pool, tree, &cfg.render)
    } else {
        gen_term_case(&mut t, &cfg)
    };
    st.class_if(case.names.len() > 16, "more than 16 variables");
    let text: &'static str = crate::hist::leak(case.text.clone());
    let n = case.names.len();
    let steps: Vec<usize> = (0..1 + t.choose(10)).map(|_| t.choose(9)).collect();
    let final_kind = t.choose(4);
    let un_name: Option<&'static str> = case.table.iter().find(|o| o.unary).map(|o| o.name);
    let bin_name: &'static str = case.table.iter().find(|o| o.bin.is_some()).map(|o| o.name).unwrap_or("+");
    let describe = |h: &Vec<String>| {
        let mut c = case.describe();
        c["history"] = json!(h);
        c
    };
    let res = guard(|| -> Result<Result<(), Fail>, String> {
        let f = ex_msg(F::parse(text))?;
        let f_again = ex_msg(F::parse(text))?;
        if f != f_again {
            return Ok(Err(fail("C20/parse-not-deterministic", format!("parsing `{text}` twice gives different expressions"), describe(&vec![]))));
        }
        let d = ex_msg(D::parse(text))?;
        let d_again = ex_msg(D::parse(text))?;
        if d != d_again {
            return Ok(Err(fail("C20/parse-not-deterministic", format!("deep-parsing `{text}` twice gives different expressions"), describe(&vec![]))));
        }
        let (f0, d0) = (f.clone(), d.clone());
        let v0 = ex_msg(f.eval(&case.vals))?;
        let dv0 = ex_msg(d.eval(&case.vals))?;
        let mut hist: Vec<String> = vec![];
        for s in &steps {
            let wrong: Vec<Term> = (0..n + 1).map(|i| Term::Atom(700 + i as u32)).collect();
            match s {
                0 => {
                    hist.push("eval".to_string());
                    let _ = f.eval(&case.vals);
                    let _ = d.eval(&case.vals);
                }
                1 => {
                    hist.push("eval with wrong length".to_string());
                    let _ = f.eval(&wrong);
                    let _ = d.eval(&wrong);
                    let _ = f.eval(&[]);
                }
                2 => {
                    hist.push("eval_relaxed".to_string());
                    let _ = f.eval_relaxed(&wrong);
                    let _ = d.eval_relaxed(&wrong);
                }
                3 => {
                    hist.push("eval_vec / eval_iter".to_string());
                    let _ = f.eval_vec(case.vals.iter().map(|x| x.clone_quiet()).collect());
                    let _ = f.eval_iter(case.vals.iter().map(|x| x.clone_quiet()));
                }
                4 => {
                    hist.push("unparse / Display".to_string());
                    let _ = f.unparse().len() + d.unparse().len() + format!("{f}{d}").len();
                }
                5 => {
                    hist.push("operator listings".to_string());
                    let _ = (f.unary_reprs(), f.binary_reprs(), f.operator_reprs(), d.unary_reprs(), d.binary_reprs(), d.operator_reprs());
                }
                6 => {
                    hist.push("clone().to_deepex() / from_deepex(clone)".to_string());
                    let _ = f.clone().to_deepex();
                    let _ = F::from_deepex(d.clone());
                }
                7 => {
                    hist.push("eval with other values".to_string());
                    let other: Vec<Term> = (0..n).map(|i| Term::Lit(format!("{}", i + 1))).collect();
                    let _ = f.eval(&other);
                    let _ = d.eval(&other);
                }
                _ => {
                    hist.push("var_indices_ordered / var_names".to_string());
                    let _ = (f.var_indices_ordered(), f.var_names().len(), d.var_names().len());
                }
            }
            if f != f0 {
                return Ok(Err(fail("C20/flat-modified", format!("after {hist:?} the flat expression of `{text}` differs from a pristine clone"), describe(&hist))));
            }
            if d != d0 {
                return Ok(Err(fail("C20/deep-modified", format!("after {hist:?} the deep expression of `{text}` differs from a pristine clone"), describe(&hist))));
            }
            let v = ex_msg(f.eval(&case.vals))?;
            let dv = ex_msg(d.eval(&case.vals))?;
            if v != v0 || dv != dv0 {
                return Ok(Err(fail("C20/eval-not-repeatable", format!("after {hist:?} evaluating `{text}` again gives {v:?} / {dv:?}, first time {v0:?} / {dv0:?}"), describe(&hist))));
            }
        }
        // an expression that has been evaluated is as good as a never-evaluated one: the used
        // values themselves (moved, not cloned) are transformed and compared with the same
        // transformation of a fresh parse
        let vals_for = |names: &[String]| -> Vec<Term> {
            names.iter().map(|nm| case.names.iter().position(|c| c == nm).map(|i| case.vals[i].clone_quiet()).unwrap_or(Term::Poison)).collect()
        };
        let fresh_d = ex_msg(D::parse(text))?;
        let fresh_f = ex_msg(F::parse(text))?;
        let first = case.names.first().cloned();
        let what = ["subs(first variable -> 7)", "operate_unary", "flat<->deep conversion", "operate_binary with `3`"][final_kind];
        hist.push(format!("consume the evaluated expressions: {what}"));
        let transform_d = |x: D<'static>| -> Result<D<'static>, String> {
            match final_kind {
                0 => ex_msg(x.subs(&mut |nm: &str| if Some(nm) == first.as_deref() { D::parse("7").ok() } else { None })),
                1 => match un_name {
                    Some(u) => ex_msg(x.operate_unary(u)),
                    None => Ok(x),
                },
                2 => ex_msg(ex_msg(F::from_deepex(x))?.to_deepex()),
                _ => ex_msg(x.operate_binary(ex_msg(D::parse("3"))?, bin_name)),
            }
        };
        let transform_f = |x: F| -> Result<F, String> {
            match final_kind {
                0 => ex_msg(x.subs(&mut |nm: &str| if Some(nm) == first.as_deref() { F::parse("7").ok() } else { None })),
                1 => match un_name {
                    Some(u) => ex_msg(x.operate_unary(u)),
                    None => Ok(x),
                },
                2 => ex_msg(F::from_deepex(ex_msg(x.to_deepex())?)),
                _ => ex_msg(x.operate_binary(ex_msg(F::parse("3"))?, bin_name)),
            }
        };
        let (ud, fd) = (transform_d(d)?, transform_d(fresh_d)?);
        let (uf, ff) = (transform_f(f)?, transform_f(fresh_f)?);
        let (a, b) = (ex_msg(ud.eval(&vals_for(ud.var_names())))?, ex_msg(fd.eval(&vals_for(fd.var_names())))?);
        if a != b || ud.var_names() != fd.var_names() || ud != fd {
            return Ok(Err(fail("C20/used-differs-from-fresh", format!("after {hist:?} the deep expression of `{text}` gives {a:?} over {:?}, the same transformation of a fresh parse gives {b:?} over {:?}", ud.var_names(), fd.var_names()), describe(&hist))));
        }
        let (a, b) = (ex_msg(uf.eval(&vals_for(uf.var_names())))?, ex_msg(ff.eval(&vals_for(ff.var_names())))?);
        if a != b || uf.var_names() != ff.var_names() || uf != ff {
            return Ok(Err(fail("C20/used-differs-from-fresh", format!("after {hist:?} the flat expression of `{text}` gives {a:?} over {:?}, the same transformation of a fresh parse gives {b:?} over {:?}", uf.var_names(), ff.var_names()), describe(&hist))));
        }
        Ok(Ok(()))
    });
    st.class(&format!("history length {}", steps.len()));
    if steps.len() >= 3 && st.nontrivial(&format!("{}|{:?}|{}", case.text, steps, describe_table(&case.table))) && st.want_sample() {
        st.sample(describe(&steps.iter().map(|s| format!("step kind {s}")).collect()));
    }
    match res {
        Err(p) => Err(fail("C20/panic", format!("panic during an evaluation history on `{text}`: {p}"), describe(&vec![]))),
        Ok(Err(e)) => Err(fail("C20/error", format!("`{text}`: {e}"), describe(&vec![]))),
        Ok(Ok(r)) => r,
    }
}

// ---------------------------------------------------------------------------------------------
// 2. results do not depend on what the thread did before (parsing and evaluating other expressions)

/// a chain of more than 2048 operands (the operand tracker of the flat form leaves its inline
/// buffer): folded and unfolded flat form, every evaluation entry point, evaluated repeatedly
fn snapshot_huge(t: &mut Tape) -> Result<String, String> {
    use crate::term::OpSpec;
    let table = vec![OpSpec::bin("-", 1, false), OpSpec::bin("*", 2, false)];
    set_table(&table);
    let n = 2050 + t.choose(150);
    let nv = 2 + t.choose(8);
    let mut text = String::new();
    let mut items: Vec<usize> = vec![];
    let mut ops: Vec<usize> = vec![];
    for i in 0..n {
        let v = if i < nv { i } else { t.choose(nv) };
        if i > 0 {
            let o = if t.chance(30) { 1 } else { 0 };
            ops.push(o);
            text.push_str(["-", "*"][o]);
        }
        items.push(v);
        text.push_str(&format!("v{v}"));
    }
    let atom = |i: usize| Term::Atom(i as u32);
    let mut prods: Vec<Term> = vec![];
    let mut cur = atom(items[0]);
    for i in 1..n {
        if ops[i - 1] == 1 {
            cur = Term::bin(1, cur, atom(items[i]));
        } else {
            prods.push(cur);
            cur = atom(items[i]);
        }
    }
    prods.push(cur);
    let mut it = prods.into_iter();
    let mut expected = it.next().unwrap();
    for p in it {
        expected = Term::bin(0, expected, p);
    }
    let vals: Vec<Term> = (0..nv).map(atom).collect();
    let f = ex_msg(F::parse(&text))?;
    let g = ex_msg(F::parse_wo_compile(&text))?;
    let results = [
        ex_msg(f.eval(&vals))?,
        ex_msg(f.eval(&vals))?,
        ex_msg(f.eval_vec(vals.clone()))?,
        ex_msg(f.eval_iter(vals.clone().into_iter()))?,
        ex_msg(g.eval_relaxed(&vals))?,
        ex_msg(g.eval(&vals))?,
    ];
    let ok = results.iter().all(|r| *r == expected);
    let h: Vec<u64> = results.iter().map(|r| crate::tape::hash_str(&format!("{r:?}"))).collect();
    Ok(format!("chain of {n} operands over {nv} variables|{:?}|{h:?}|matches_reference={ok}", f.var_names()))
}

fn snapshot(tape_part: &[u32], cfgsel: usize) -> Result<String, String> {
    let mut t = Tape::new(tape_part);
    if cfgsel == 5 {
        return snapshot_huge(&mut t);
    }
    let cfg = CaseCfg {
        table: TableCfg { max_bin: 8, ..TableCfg::default() },
        tree: TreeCfg { max_operands: [6usize, 70, 140, 200, 12][cfgsel % 5], lit_pct: 20, unary_pct: 8, shape_weights: [3, 5, 1], ..TreeCfg::default() },
        render: RenderCfg { redundant_paren_pct: 2, ..RenderCfg::default() },
        max_vars: 6,
        weird_pct: 0,
    };
    let case = gen_term_case(&mut t, &cfg);
    set_table(&case.table);
    let f = ex_msg(F::parse(&case.text))?;
    let d = ex_msg(D::parse(&case.text))?;
    let fv = ex_msg(f.eval(&case.vals))?;
    let dv = ex_msg(d.eval(&case.vals))?;
    let ok = case.norm(&fv) == case.refv && case.norm(&dv) == case.refv;
    Ok(format!("{}|{:?}|{fv:?}|{dv:?}|{}|{:?}|matches_reference={ok}", case.text, f.var_names(), d.unparse(), f.operator_reprs()))
}

fn history_independence(tape: &[u32], st: &mut Stats) -> CaseResult {
    let mut t = Tape::new(tape);
    let k = 2 + t.choose(4);
    // each case gets its own slice of the tape
    let rest: Vec<u32> = (0..k * 600).map(|_| t.raw()).collect();
    // one expression in ten is a chain of more than 2048 operands
    let sels: Vec<usize> = (0..k)
        .map(|i| {
            let m = mix(rest[i * 600] as u64, i as u64);
            if (m >> 32) % 10 == 0 {
                5
            } else {
                (m % 5) as usize
            }
        })
        .collect();
    let part = |i: usize| &rest[i * 600..(i + 1) * 600];
    // baseline: each case in a fresh thread
    let mut base = vec![];
    for i in 0..k {
        let p: Vec<u32> = part(i).to_vec();
        let sel = sels[i];
        let r = std::thread::Builder::new().stack_size(WORKER_STACK).spawn(move || guard(|| snapshot(&p, sel))).unwrap().join();
        match r {
            Ok(Ok(Ok(s))) => base.push(s),
            Ok(Ok(Err(e))) => return Err(fail("C20/independence/error", format!("well-formed case fails: {e}"), json!({"case": i}))),
            Ok(Err(p)) => return Err(fail("C20/independence/panic", format!("panic: {p}"), json!({"case": i}))),
            Err(_) => return Err(fail("C20/independence/panic", "thread died".into(), json!({"case": i}))),
        }
    }
    if let Some(i) = base.iter().position(|b| b.ends_with("matches_reference=false")) {
        return Err(fail(
            "C20/independence/fresh-thread-wrong",
            format!("expression {i} handled on a fresh thread (parsed once, evaluated repeatedly) does not denote its reference tree"),
            json!({"fresh": base[i].chars().take(600).collect::<String>()}),
        ));
    }
    st.class_if(sels.contains(&5), "a chain of more than 2048 operands in the history");
    let long = sels.iter().filter(|s| [1usize, 2, 3, 5].contains(s)).count();
    st.class_if(long >= 2, ">=2 expressions with more than 64 operands in one history");
    if st.nontrivial(&base.join("#")) && st.want_sample() {
        st.sample(json!({"expressions": base.iter().map(|b| b.chars().take(100).collect::<String>()).collect::<Vec<_>>()}));
    }
    // now all of them on this thread, twice, in two orders
    let mut order: Vec<usize> = (0..k).collect();
    order.extend((0..k).rev());
    order.extend(0..k);
    let mut hist = vec![];
    for i in order {
        hist.push(i);
        match guard(|| snapshot(part(i), sels[i])) {
            Ok(Ok(s)) => {
                if s != base[i] {
                    return Err(fail(
                        "C20/independence/differs",
                        format!("after handling expressions {hist:?} on one thread, expression {i} gives a different result than on a fresh thread"),
                        json!({"fresh": base[i].chars().take(600).collect::<String>(), "after_history": s.chars().take(600).collect::<String>(), "history": hist}),
                    ));
                }
            }
            Ok(Err(e)) => return Err(fail("C20/independence/error", format!("expression {i} fails after history {hist:?}: {e}"), json!({"fresh": base[i].chars().take(300).collect::<String>()}))),
            Err(p) => return Err(fail("C20/independence/panic", format!("expression {i} panics after history {hist:?}: {p}"), json!({"fresh": base[i].chars().take(300).collect::<String>()}))),
        }
    }
    Ok(())
}

// ---------------------------------------------------------------------------------------------
// 3. schedules: concurrent run vs. sequential run of the same plan

const TEXTS: [&str; 12] = [
    "sin(x)*y+2^z", "x/y-z*(x+1)", "atan2(x,y)+max(z,1.5)", "-x^2+y*z/3", "cos(sin(x+y))*z", "x+y+z+1+2+3", "(x-y)/(z+10)", "log2(x+5)*log10(y+5)+ln(z+5)",
    "x*y*z*x*y*z", "sqrt(abs(x))+cbrt(y)-z", "tanh(x)*α+β", "{a b}+x*2",
];
const VAL_TEXTS: [&str; 4] = ["x if y > 1 else z", "x + y * 2 - z", "to_int(x) % 3 + y", "[1,2,3].1 * x + y - z"];

#[derive(Clone, Debug)]
enum Op {
    ParseEval(usize, [f64; 3]),
    EvalShared(usize, [f64; 3]),
    EvalSharedDeep(usize, [f64; 3]),
    PartialShared(usize, usize),
    ParseVal(usize, [f64; 3]),
    LongTerm(u64),
}

#[derive(Clone, Debug)]
pub struct Plan {
    threads: Vec<Vec<Op>>,
    extra_text: String,
}

fn gen_plan(seed: u64) -> Plan {
    let words: Vec<u32> = (0..600).map(|k| (mix(seed, k) >> 20) as u32).collect();
    let mut t = Tape::new(&words);
    let n = 2 + t.choose(15);
    let ccfg = CalcCfg { max_size: 7, nvars: 3, rational_only: false, nondiff_pct: 0, unary_pct: 25 };
    let tree = gen_ct(&mut t, &ccfg, 6);
    let extra_text = render_ct(&tree, &mut t);
    let point = |t: &mut Tape| [0.25 + t.unit_f64() * 2.0, 0.25 + t.unit_f64() * 2.0, 0.25 + t.unit_f64() * 2.0];
    let mut threads = vec![];
    for _ in 0..n {
        let m = 2 + t.choose(10);
        let mut ops = vec![];
        for _ in 0..m {
            ops.push(match t.weighted(&[4, 4, 2, 1, 2, 1]) {
                0 => Op::ParseEval(t.choose(TEXTS.len() + 1), point(&mut t)),
                1 => Op::EvalShared(t.choose(3), point(&mut t)),
                2 => Op::EvalSharedDeep(t.choose(3), point(&mut t)),
                3 => Op::PartialShared(t.choose(3), t.choose(3)),
                4 => Op::ParseVal(t.choose(VAL_TEXTS.len()), point(&mut t)),
                _ => Op::LongTerm(t.raw() as u64),
            });
        }
        threads.push(ops);
    }
    Plan { threads, extra_text }
}

struct Shared {
    flat: Vec<exmex::FlatEx<f64>>,
    deep: Vec<DeepEx<'static, f64>>,
}

fn run_op(op: &Op, plan: &Plan, shared: &Shared) -> String {
    let text_of = |i: usize| if i < TEXTS.len() { TEXTS[i] } else { plan.extra_text.as_str() };
    let fmt = |r: exmex::ExResult<f64>| match r {
        Ok(v) => format!("{:016x}", v.to_bits()),
        Err(e) => format!("ERR {}", e.msg()),
    };
    let r = guard(|| match op {
        Op::ParseEval(i, p) => match exmex::FlatEx::<f64>::parse(text_of(*i)) {
            Ok(e) => {
                let n = e.var_names().len();
                format!("{}|{}|{:?}", fmt(e.eval(&p[..n.min(3)])), e.unparse(), e.var_names())
            }
            Err(e) => format!("ERR {}", e.msg()),
        },
        Op::EvalShared(i, p) => {
            let e = &shared.flat[*i];
            fmt(e.eval(&p[..e.var_names().len().min(3)]))
        }
        Op::EvalSharedDeep(i, p) => {
            let e = &shared.deep[*i];
            format!("{}|{}", fmt(e.eval(&p[..e.var_names().len().min(3)])), e.unparse())
        }
        Op::PartialShared(i, v) => {
            let e = &shared.flat[*i];
            let n = e.var_names().len();
            match e.clone().partial((*v).min(n.saturating_sub(1))) {
                Ok(d) => format!("{}|{}", d.unparse(), fmt(d.eval(&[0.5, 1.5, 2.5][..n.min(3)]))),
                Err(e) => format!("ERR {}", e.msg()),
            }
        }
        Op::ParseVal(i, p) => match exmex::parse_val::<i32, f64>(VAL_TEXTS[*i]) {
            Ok(e) => {
                let n = e.var_names().len();
                let vals: Vec<Val<i32, f64>> = p[..n.min(3)].iter().map(|x| Val::Float(*x)).collect();
                format!("{:?}", e.eval(&vals))
            }
            Err(e) => format!("ERR {}", e.msg()),
        },
        Op::LongTerm(s) => {
            // a long chain over the term algebra with its own table (thread-local table, shared statics)
            let words: Vec<u32> = (0..900).map(|k| (mix(*s, k) >> 13) as u32).collect();
            match snapshot(&words, 1 + (*s % 3) as usize) {
                Ok(x) => x,
                Err(e) => format!("ERR {e}"),
            }
        }
    });
    r.unwrap_or_else(|p| format!("PANIC {p}"))
}

fn make_shared(plan: &Plan) -> Result<Shared, String> {
    let texts = [TEXTS[0], TEXTS[4], plan.extra_text.as_str()];
    let mut flat = vec![];
    let mut deep = vec![];
    for tx in texts {
        let tx: &'static str = crate::hist::leak(tx.to_string());
        flat.push(ex_msg(exmex::FlatEx::<f64>::parse(tx))?);
        deep.push(ex_msg(DeepEx::<f64>::parse(tx))?);
    }
    Ok(Shared { flat, deep })
}

/// concurrent first (in a fresh process the very first exmex calls race), then sequential
fn run_plan(plan: &Plan, concurrent_first: bool) -> Result<(), String> {
    let concurrent = |shared: Arc<Shared>| -> Vec<Vec<String>> {
        let n = plan.threads.len();
        let barrier = Arc::new(Barrier::new(n));
        let plan = Arc::new(plan.clone());
        let handles: Vec<_> = (0..n)
            .map(|i| {
                let (b, p, s) = (barrier.clone(), plan.clone(), shared.clone());
                std::thread::Builder::new()
                    .stack_size(32 << 20)
                    .spawn(move || {
                        b.wait();
                        p.threads[i].iter().map(|op| run_op(op, &p, &s)).collect::<Vec<String>>()
                    })
                    .unwrap()
            })
            .collect();
        handles.into_iter().map(|h| h.join().unwrap_or_else(|_| vec!["THREAD DIED".to_string()])).collect()
    };
    let sequential = |shared: &Shared| -> Vec<Vec<String>> { plan.threads.iter().map(|ops| ops.iter().map(|op| run_op(op, plan, shared)).collect()).collect() };
    let (conc, seq) = if concurrent_first {
        // the shared expressions are parsed by the racing threads' peers: build them inside the race too
        let n = plan.threads.len();
        let _ = n;
        let shared = Arc::new(make_shared(plan)?);
        let c = concurrent(shared.clone());
        (c, sequential(&shared))
    } else {
        let shared = Arc::new(make_shared(plan)?);
        let s = sequential(&shared);
        (concurrent(shared), s)
    };
    for (ti, (c, s)) in conc.iter().zip(seq.iter()).enumerate() {
        for (oi, (a, b)) in c.iter().zip(s.iter()).enumerate() {
            if a != b {
                return Err(format!(
                    "thread {ti} operation {oi} ({:?}): concurrent run gives `{}`, sequential run gives `{}`",
                    plan.threads[ti][oi],
                    a.chars().take(300).collect::<String>(),
                    b.chars().take(300).collect::<String>()
                ));
            }
            if a.starts_with("PANIC") || a == "THREAD DIED" {
                return Err(format!("thread {ti} operation {oi} ({:?}): {a}", plan.threads[ti][oi]));
            }
        }
    }
    Ok(())
}

/// `vcheck c20-worker <seed> <status file>`: fresh process whose first exmex calls are the racing ones
pub fn worker_main(seed: u64, status: &str) -> i32 {
    // no exmex call before the race: the plan generator only uses the harness' own code
    let plan = gen_plan_no_exmex(seed);
    match run_plan_racing_parse(&plan) {
        Ok(()) => {
            let _ = std::fs::write(status, "OK");
            0
        }
        Err(e) => {
            let _ = std::fs::write(status, format!("MISMATCH\n{e}"));
            1
        }
    }
}

/// plan whose generation does not touch exmex (fixed texts only)
fn gen_plan_no_exmex(seed: u64) -> Plan {
    let mut p = gen_plan(seed);
    p.extra_text = TEXTS[(seed % TEXTS.len() as u64) as usize].to_string();
    p
}

fn run_plan_racing_parse(plan: &Plan) -> Result<(), String> {
    // phase 1: all threads start with a parse from the barrier (first use of the global regexes)
    let n = plan.threads.len();
    let barrier = Arc::new(Barrier::new(n));
    let handles: Vec<_> = (0..n)
        .map(|i| {
            let b = barrier.clone();
            let text = TEXTS[i % TEXTS.len()];
            std::thread::spawn(move || {
                b.wait();
                let f = exmex::FlatEx::<f64>::parse(text).map(|e| (e.unparse().to_string(), e.var_names().to_vec(), e.eval(&[0.5, 1.5, 2.5][..e.var_names().len().min(3)]).map(|v| v.to_bits()).ok()));
                let v = exmex::parse_val::<i32, f64>(VAL_TEXTS[i % VAL_TEXTS.len()]).map(|e| e.var_names().to_vec());
                (format!("{f:?}"), format!("{v:?}"))
            })
        })
        .collect();
    let raced: Vec<(String, String)> = handles.into_iter().map(|h| h.join().unwrap_or_else(|_| ("THREAD DIED".into(), String::new()))).collect();
    // the same sequentially afterwards
    for (i, (rf, rv)) in raced.iter().enumerate() {
        let text = TEXTS[i % TEXTS.len()];
        let f = exmex::FlatEx::<f64>::parse(text).map(|e| (e.unparse().to_string(), e.var_names().to_vec(), e.eval(&[0.5, 1.5, 2.5][..e.var_names().len().min(3)]).map(|v| v.to_bits()).ok()));
        let v = exmex::parse_val::<i32, f64>(VAL_TEXTS[i % VAL_TEXTS.len()]).map(|e| e.var_names().to_vec());
        if &format!("{f:?}") != rf || &format!("{v:?}") != rv {
            return Err(format!("racing first parse of `{text}` in thread {i} gave {rf} / {rv}, sequential parse gives {f:?} / {v:?}"));
        }
    }
    // phase 2: the full plan, concurrent then sequential
    run_plan(plan, true)
}

fn run_schedules(tier: Tier, seed: u64) -> SubReport {
    let start = Instant::now();
    let mut stats = Stats::default();
    let mut failures = vec![];
    // (a) in-process plans
    let n_plans = tier.pick(60, 3_000);
    for k in 0..n_plans {
        let ps = mix(seed, 50_000 + k);
        let plan = gen_plan(ps);
        stats.evals += 1;
        let sharing = plan.threads.iter().filter(|ops| ops.iter().any(|o| matches!(o, Op::EvalShared(..) | Op::EvalSharedDeep(..) | Op::PartialShared(..)))).count();
        let parsing = plan.threads.iter().filter(|ops| ops.iter().any(|o| matches!(o, Op::ParseEval(..) | Op::ParseVal(..) | Op::LongTerm(..)))).count();
        if sharing >= 2 && parsing >= 1 {
            stats.nontrivial.insert(ps);
            if stats.samples.len() < 2 {
                stats.samples.push(json!({"threads": plan.threads.len(), "operations_thread_0": format!("{:?}", plan.threads[0]), "extra_text": plan.extra_text}));
            }
        }
        *stats.classes.entry(format!("threads {}", if plan.threads.len() <= 4 { "2-4" } else if plan.threads.len() <= 8 { "5-8" } else { "9-16" })).or_insert(0) += 1;
        if let Err(e) = guard(|| run_plan(&plan, k % 2 == 0)).unwrap_or_else(|p| Err(format!("panic: {p}"))) {
            failures.push((fail("C20/schedule/differs", e, json!({"plan_seed": ps})), json!({"plan_seed": ps, "child": false})));
            break;
        }
    }
    // (b) fresh child processes: first-use initialisation races
    let n_children = tier.pick(24, 2_000);
    let exe = std::env::current_exe().expect("current exe");
    let par = n_threads().min(8);
    let mut k = 0u64;
    while k < n_children && failures.is_empty() {
        let mut batch = vec![];
        for j in 0..par as u64 {
            if k + j >= n_children {
                break;
            }
            let cs = mix(seed, 90_000 + k + j);
            let _ = std::fs::create_dir_all(format!("{}/.target", out_dir()));
            let status = format!("{}/.target/c20-{}-{}.status", out_dir(), std::process::id(), k + j);
            match std::process::Command::new(&exe).arg("c20-worker").arg(format!("{cs}")).arg(&status).stdout(std::process::Stdio::null()).stderr(std::process::Stdio::null()).spawn() {
                Ok(c) => batch.push((c, status, cs)),
                Err(e) => {
                    eprintln!("[C20] cannot spawn worker: {e} (inconclusive)");
                    std::process::exit(2);
                }
            }
        }
        for (mut c, status, cs) in batch {
            let st = c.wait();
            let content = std::fs::read_to_string(&status).unwrap_or_default();
            let _ = std::fs::remove_file(&status);
            stats.evals += 1;
            stats.nontrivial.insert(cs);
            *stats.classes.entry("fresh process: racing first parse".into()).or_insert(0) += 1;
            if content.starts_with("OK") {
                continue;
            }
            if content.is_empty() && matches!(st.as_ref().ok().and_then(|x| x.code()), Some(0) | Some(1)) {
                // the worker finished normally but its verdict could not be read: infrastructure, not a finding
                eprintln!("[C20] verdict file {status} of a worker process is missing (inconclusive)");
                std::process::exit(2);
            }
            let msg = if content.starts_with("MISMATCH") { content[8..].trim().to_string() } else { format!("worker process ended with {st:?} without a verdict") };
            failures.push((fail("C20/schedule/fresh-process", msg, json!({"plan_seed": cs})), json!({"plan_seed": cs, "child": true})));
        }
        k += par as u64;
    }
    SubReport { name: String::new(), rule: String::new(), stats, exhaustive: false, failures, wall_s: start.elapsed().as_secs_f64() }
}

fn replay_schedule(desc: &Value) -> CaseResult {
    let ps = desc.get("plan_seed").and_then(|x| x.as_u64()).unwrap_or(0);
    let child = desc.get("child").and_then(|x| x.as_bool()).unwrap_or(false);
    // schedules are sampled: repeat a few times
    for _ in 0..20 {
        let r = if child { run_plan_racing_parse(&gen_plan_no_exmex(ps)) } else { run_plan(&gen_plan(ps), true) };
        if let Err(e) = r {
            return Err(fail("C20/schedule/differs", e, json!({"plan_seed": ps})));
        }
    }
    Ok(())
}

pub fn def() -> PropDef {
    PropDef {
        id: "C20",
        level_text: "Send/Sync decided by the compiler for all uses (a binary that only compiles if the bounds hold); generated evaluation histories on one expression compared structurally with a pristine clone after every step; results independent of what the thread handled before (fresh thread vs. after a history, incl. several >64-operand expressions and different operator tables) and of which other instantiations (integer widths of the value type, same-named literal matchers) were used before in the process; generated plans run concurrently from a barrier vs. sequentially, also in fresh child processes whose first library call is the racing parse (sampled schedules, not enumerated)",
        assumptions: vec![
            "the schedule dimension is sampled: the harness does not own the scheduler (std::sync::Once inside lazy_static); this part is a stress sample",
            "structural equality = the derived PartialEq of FlatEx / DeepEx",
        ],
        subs: vec![
            SubCheck {
                name: "eval_histories",
                rule: "tape -> expression over the term algebra (up to 8/30/90 operands) x 1-10 steps (eval with right/wrong length, eval_relaxed, eval_vec/iter, unparse, listings, clone().to_deepex(), other values); after every step == pristine clone and eval repeatable; parse(t) == parse(t) (one case in eight with 17-26 variables); finally the evaluated values themselves are consumed by subs / operate_unary / conversion / operate_binary and must equal the same transformation of a fresh parse; non-trivial = >=3 steps; distinct by text+history",
                kind: Kind::Tape { len: 900, quick: 15_000, thorough: 800_000, f: eval_histories },
            },
            SubCheck {
                name: "history_independence",
                rule: "tape -> 2-5 (table, expression) pairs incl. chains of 70/140/200 operands and (one in ten) flat chains of 2050-2199 operands evaluated through every entry point; each handled on a fresh thread (baseline) and then all on one thread in three passes (forward, backward, forward): text, variables, values, printed deep form, listings must be identical to the baseline and equal the reference tree; non-trivial = every history (distinct by content)",
                kind: Kind::Tape { len: 3100, quick: 1_500, thorough: 60_000, f: history_independence },
            },
            SubCheck {
                name: "cross_type_histories",
                rule: "tape -> 4-15 steps, each on one of the eight instantiations Val<i8|i16|i32|i64, f32|f64> (an integer operation + - * / % ^ fact neg abs on boundary, small, power-of-two and random operands, through variables or folded literals) or on one of three literal matchers that share the identifier `NumMatcher` in different modules (plain decimals, with exponent, integers only); every result is compared with an oracle that does not depend on the process history (i128 arithmetic with the range check of the width; the tokenisation the matcher's own pattern implies); 16 workers run such histories concurrently; non-trivial = >=2 integer widths in the history",
                kind: Kind::Tape { len: 200, quick: 60_000, thorough: 1_000_000, f: super::c20x::cross_type_histories },
            },
            SubCheck {
                name: "schedules",
                rule: "plans (2-16 threads x 2-11 operations: parse+eval of 13 texts, eval of shared Arc<FlatEx>/Arc<DeepEx>, partial of a shared expression, parse_val, long term-algebra chains) run concurrently from a barrier and sequentially, all results identical; 60/3000 in-process plans and 24/2000 fresh child processes whose first exmex call is the racing parse; non-trivial = >=2 threads share an expression while >=1 thread parses",
                kind: Kind::Custom { run: run_schedules, replay: replay_schedule },
            },
        ],
    }
}
