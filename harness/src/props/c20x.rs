//! C20, part 4 — results do not depend on which *other instantiations* of the generic parser and of
//! the value type were used before in the process (other integer widths, other literal matchers with
//! the same identifier in another module). The oracle is independent of the process history: exact
//! integer arithmetic in i128 with a range check per width, and the documented tokenisation of the two
//! literal patterns.
use crate::runner::*;
use crate::tape::Tape;
use exmex::prelude::*;
use exmex::{FlatEx, FloatOpsFactory, Val};
use serde_json::json;

/// two literal matchers with the same identifier and different patterns, the way two modules of a
/// user's program may define them
mod plain {
    use exmex::MatchLiteral;
    exmex::literal_matcher_from_pattern!(NumMatcher, r"^[0-9]+(\.[0-9]+)?");
}
mod expo {
    use exmex::MatchLiteral;
    exmex::literal_matcher_from_pattern!(NumMatcher, r"^[0-9]+(\.[0-9]+)?(e[0-9]+)?");
}
mod dotless {
    use exmex::MatchLiteral;
    exmex::literal_matcher_from_pattern!(NumMatcher, r"^[0-9]+");
}

/// None = error value expected
fn ref_int(op: &str, a: i128, b: i128, bits: u32) -> Option<i128> {
    let lo = -(1i128 << (bits - 1));
    let hi = (1i128 << (bits - 1)) - 1;
    let fit = |x: i128| (lo..=hi).contains(&x).then_some(x);
    match op {
        "+" => fit(a + b),
        "-" => fit(a - b),
        "*" => fit(a.checked_mul(b)?),
        "/" => {
            if b == 0 {
                None
            } else {
                fit(a / b)
            }
        }
        "%" => {
            if b == 0 || (a == lo && b == -1) {
                None
            } else {
                fit(a % b)
            }
        }
        "^" => {
            if b < 0 {
                return None;
            }
            match a {
                0 => return Some(if b == 0 { 1 } else { 0 }),
                1 => return Some(1),
                -1 => return Some(if b % 2 == 0 { 1 } else { -1 }),
                _ => {}
            }
            // |a| >= 2: at most 127 multiplications before the range of any width is left
            let mut r: i128 = 1;
            for _ in 0..b {
                r = fit(r.checked_mul(a)?)?;
            }
            Some(r)
        }
        "fact" => {
            if a < 0 {
                return None;
            }
            let mut r: i128 = 1;
            for k in 1..=a {
                // the library multiplies in the integer type and converts every factor into it
                fit(k)?;
                r = fit(r.checked_mul(k)?)?;
            }
            Some(r)
        }
        "neg" => fit(-a),
        "abs" => fit(a.abs()),
        _ => unreachable!(),
    }
}

const OPS: [&str; 9] = ["+", "-", "*", "/", "%", "^", "fact", "neg", "abs"];

fn gen_operand(t: &mut Tape, bits: u32) -> i128 {
    let lo = -(1i128 << (bits - 1));
    let hi = (1i128 << (bits - 1)) - 1;
    match t.choose(6) {
        0 => [lo, lo + 1, hi, hi - 1, -1, 0, 1][t.choose(7)],
        1 => t.choose(25) as i128,
        2 => -(t.choose(25) as i128),
        3 => {
            let s = t.choose(bits as usize - 1) as u32;
            (1i128 << s) + t.choose(3) as i128 - 1
        }
        4 => (t.raw() as i128 * 65537 + t.raw() as i128).rem_euclid(hi - lo + 1) + lo,
        _ => 2 + t.choose(12) as i128,
    }
}

fn run_int<I, F>(op: &str, a: i128, b: i128, through_literals: bool) -> Result<Option<i128>, String>
where
    I: exmex::DataType + num::PrimInt + num::Signed + TryFrom<i128> + Into<i128>,
    F: exmex::DataType + num::Float,
    <I as std::str::FromStr>::Err: std::fmt::Debug,
    <F as std::str::FromStr>::Err: std::fmt::Debug,
{
    let conv = |x: i128| I::try_from(x).map_err(|_| "operand out of range".to_string());
    let (text, vals): (String, Vec<Val<I, F>>) = match op {
        "fact" | "abs" => (format!("{op}(x)"), vec![Val::Int(conv(a)?)]),
        "neg" => ("-x".to_string(), vec![Val::Int(conv(a)?)]),
        _ if through_literals && a >= 0 && b >= 0 => (format!("{a} {op} {b}"), vec![]),
        _ => (format!("x {op} y"), vec![Val::Int(conv(a)?), Val::Int(conv(b)?)]),
    };
    let e = exmex::parse_val::<I, F>(&text).map_err(|e| format!("`{text}` rejected: {e}"))?;
    match e.eval(&vals).map_err(|e| format!("`{text}` eval fails: {e}"))? {
        Val::Int(i) => Ok(Some(i.into())),
        Val::Error(_) => Ok(None),
        other => Err(format!("`{text}` yields {other:?}, neither integer nor error")),
    }
}

#[derive(Debug, Clone)]
enum Step {
    Int { bits: u32, f32_: bool, op: &'static str, a: i128, b: i128, lit: bool },
    Matcher { which: usize, text_i: usize },
}

const MATCHER_TEXTS: [(&str, [Option<f64>; 3]); 5] = [
    // text, expected value under plain / expo / dotless (None = must be rejected)
    ("2e3+1", [None, Some(2001.0), None]),
    ("1.5e2*2", [None, Some(300.0), None]),
    ("7+2.5", [Some(9.5), Some(9.5), None]),
    ("4*12", [Some(48.0), Some(48.0), Some(48.0)]),
    ("3e1", [None, Some(30.0), None]),
];

fn run_matcher(which: usize, text: &str) -> Option<f64> {
    fn go<M: exmex::MatchLiteral + std::fmt::Debug + Clone + Default>(text: &str) -> Option<f64> {
        let e = FlatEx::<f64, FloatOpsFactory<f64>, M>::parse(text).ok()?;
        if !e.var_names().is_empty() {
            return None;
        }
        e.eval(&[]).ok()
    }
    match which {
        0 => go::<plain::NumMatcher>(text),
        1 => go::<expo::NumMatcher>(text),
        _ => go::<dotless::NumMatcher>(text),
    }
}

pub fn cross_type_histories(tape: &[u32], st: &mut Stats) -> CaseResult {
    let mut t = Tape::new(tape);
    let n = 4 + t.choose(12);
    let steps: Vec<Step> = (0..n)
        .map(|_| {
            if t.chance(15) {
                Step::Matcher { which: t.choose(3), text_i: t.choose(MATCHER_TEXTS.len()) }
            } else {
                let bits = [8u32, 16, 32, 64][t.choose(4)];
                let op = OPS[t.choose(OPS.len())];
                let a = match op {
                    "fact" => [t.choose(24) as i128, t.choose(8) as i128, gen_operand(&mut t, bits)][t.weighted(&[6, 2, 1])],
                    _ => gen_operand(&mut t, bits),
                };
                let b = match op {
                    "^" => [t.choose(70) as i128, t.choose(5) as i128, gen_operand(&mut t, bits)][t.weighted(&[3, 3, 1])],
                    _ => gen_operand(&mut t, bits),
                };
                Step::Int { bits, f32_: t.chance(50), op, a, b, lit: t.chance(30) }
            }
        })
        .collect();
    let widths: std::collections::BTreeSet<u32> = steps.iter().filter_map(|s| if let Step::Int { bits, .. } = s { Some(*bits) } else { None }).collect();
    let matchers: std::collections::BTreeSet<usize> = steps.iter().filter_map(|s| if let Step::Matcher { which, .. } = s { Some(*which) } else { None }).collect();
    st.class_if(widths.len() >= 3, ">=3 integer widths in one history");
    st.class_if(matchers.len() >= 2, ">=2 same-named literal matchers in one history");
    let mut saw_narrow_overflow = false;
    let mut wide_after_narrow_overflow = false;
    let describe = |i: usize| json!({"steps": steps.iter().map(|s| format!("{s:?}")).collect::<Vec<_>>(), "failing_step": i});
    for (i, s) in steps.iter().enumerate() {
        match s {
            Step::Int { bits, f32_, op, a, b, lit } => {
                let want = ref_int(op, *a, *b, *bits);
                if want.is_none() && *bits <= 16 {
                    saw_narrow_overflow = true;
                }
                if want.is_some() && *bits >= 32 && saw_narrow_overflow {
                    wide_after_narrow_overflow = true;
                }
                let (a, b, lit) = (*a, *b, *lit);
                let got = guard(|| match (bits, f32_) {
                    (8, true) => run_int::<i8, f32>(op, a, b, lit),
                    (8, false) => run_int::<i8, f64>(op, a, b, lit),
                    (16, true) => run_int::<i16, f32>(op, a, b, lit),
                    (16, false) => run_int::<i16, f64>(op, a, b, lit),
                    (32, true) => run_int::<i32, f32>(op, a, b, lit),
                    (32, false) => run_int::<i32, f64>(op, a, b, lit),
                    (64, true) => run_int::<i64, f32>(op, a, b, lit),
                    _ => run_int::<i64, f64>(op, a, b, lit),
                });
                match got {
                    Err(p) => return Err(fail("C20/cross-type/panic", format!("step {i} {s:?} panics: {p}"), describe(i))),
                    Ok(Err(e)) => return Err(fail("C20/cross-type/error", format!("step {i} {s:?}: {e}"), describe(i))),
                    Ok(Ok(g)) => {
                        if g != want {
                            return Err(fail(
                                "C20/cross-type/differs",
                                format!("step {i} {s:?} over Val<i{bits}, ..> gives {g:?} (None = error value) after the earlier steps of the history; exact arithmetic with the range check of i{bits} gives {want:?}"),
                                describe(i),
                            ));
                        }
                    }
                }
            }
            Step::Matcher { which, text_i } => {
                let (text, wants) = MATCHER_TEXTS[*text_i];
                let want = wants[*which];
                match guard(|| run_matcher(*which, text)) {
                    Err(p) => return Err(fail("C20/cross-type/panic", format!("step {i} {s:?} panics: {p}"), describe(i))),
                    Ok(g) => {
                        if g != want {
                            return Err(fail(
                                "C20/cross-type/matcher",
                                format!("step {i}: `{text}` parsed with literal matcher #{which} ([plain, with exponent, integers only][{which}]) gives {g:?} (None = rejected or a variable appeared), its own pattern gives {want:?}"),
                                describe(i),
                            ));
                        }
                    }
                }
            }
        }
    }
    st.class_if(wide_after_narrow_overflow, "in-range operation on a wide type after an overflow on a narrow type");
    if widths.len() >= 2 && st.nontrivial(&format!("{steps:?}")) && st.want_sample() {
        st.sample(json!({"steps": steps.iter().take(6).map(|s| format!("{s:?}")).collect::<Vec<_>>()}));
    }
    Ok(())
}
