use crate::runner::SubCheck;
pub mod c01;
pub mod c02;
pub mod c03;
pub mod c14;

pub struct PropDef {
    pub id: &'static str,
    pub level_text: &'static str,
    pub assumptions: Vec<&'static str>,
    pub subs: Vec<SubCheck>,
}

pub fn all_ids() -> Vec<&'static str> {
    vec!["C01", "C02", "C03", "C14"]
}

pub fn get(id: &str) -> Option<PropDef> {
    match id {
        "C01" => Some(c01::def()),
        "C14" => Some(c14::def()),
        "C02" => Some(c02::def()),
        "C03" => Some(c03::def()),
        _ => None,
    }
}
