use crate::runner::SubCheck;
pub mod c01;

pub struct PropDef {
    pub id: &'static str,
    pub level_text: &'static str,
    pub assumptions: Vec<&'static str>,
    pub subs: Vec<SubCheck>,
}

pub fn all_ids() -> Vec<&'static str> {
    vec!["C01"]
}

pub fn get(id: &str) -> Option<PropDef> {
    match id {
        "C01" => Some(c01::def()),
        _ => None,
    }
}
