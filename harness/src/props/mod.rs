use crate::runner::SubCheck;
pub mod c01;
pub mod c14;

pub struct PropDef {
    pub id: &'static str,
    pub level_text: &'static str,
    pub assumptions: Vec<&'static str>,
    pub subs: Vec<SubCheck>,
}

pub fn all_ids() -> Vec<&'static str> {
    vec!["C01", "C14"]
}

pub fn get(id: &str) -> Option<PropDef> {
    match id {
        "C01" => Some(c01::def()),
        "C14" => Some(c14::def()),
        _ => None,
    }
}
