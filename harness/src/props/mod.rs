use crate::runner::SubCheck;

pub struct PropDef {
    pub id: &'static str,
    pub level_text: &'static str,
    pub assumptions: Vec<&'static str>,
    pub subs: Vec<SubCheck>,
}

macro_rules! props {
    ($(($id:literal, $m:ident)),* $(,)?) => {
        $(pub mod $m;)*
        pub fn all_ids() -> Vec<&'static str> { vec![$($id),*] }
        pub fn get(id: &str) -> Option<PropDef> {
            match id { $($id => Some($m::def()),)* _ => None }
        }
    };
}

props!(("C01", c01), ("C02", c02), ("C03", c03), ("C04", c04), ("C05", c05), ("C06", c06), ("C07", c07), ("C08", c08), ("C09", c09), ("C10", c10), ("C11", c11), ("C12", c12), ("C13", c13), ("C14", c14), ("C15", c15), ("C16", c16), ("C17", c17), ("C18", c18), ("C19", c19));
