use crate::runner::SubCheck;
pub mod c20x;

pub struct PropDef {
    pub id: &'static str,
    pub level_text: &'static str,
    pub assumptions: Vec<&'static str>,
    pub subs: Vec<SubCheck>,
}

macro_rules! props {
    ($(($id:literal, $m:ident)),* $(,)?) => {
        $(pub mod $m;)*
        pub fn all_ids() -> Vec<&'static str> { vec![$($id),*] }
        pub fn get(id: &str) -> Option<PropDef> {
            let mut d = match id { $($id => Some($m::def()),)* _ => None }?;
            // quick tier: fixed work, sized so that a check takes roughly 10-40 s on 16 cores
            let mult: u64 = match id {
                "C01" => 20, "C02" => 12, "C03" => 8, "C04" => 3, "C05" => 8, "C06" => 8, "C07" => 30, "C08" => 6,
                "C09" => 2, "C10" => 10, "C11" => 12, "C12" => 8, "C13" => 30, "C14" => 2, "C15" => 16, "C16" => 20,
                "C17" => 20, "C18" => 12, "C19" => 20, "C20" => 4, _ => 1,
            };
            // thorough tier: sized so that a check takes roughly 5-20 min on 16 cores
            let tmult: u64 = match id {
                "C01" => 15, "C04" => 2, "C05" => 3, "C07" => 8, "C08" => 3, "C10" => 6, "C11" => 6, "C13" => 12,
                "C15" => 5, "C16" => 15, "C17" => 20, "C18" => 5, "C19" => 25, "C20" => 2, _ => 1,
            };
            for s in d.subs.iter_mut() {
                if let crate::runner::Kind::Tape { quick, thorough, .. } = &mut s.kind {
                    *quick *= mult;
                    if *thorough < *quick * 4 {
                        *thorough = *quick * 4;
                    }
                    *thorough *= tmult;
                }
            }
            Some(d)
        }
    };
}

props!(("C01", c01), ("C02", c02), ("C03", c03), ("C04", c04), ("C05", c05), ("C06", c06), ("C07", c07), ("C08", c08), ("C09", c09), ("C10", c10), ("C11", c11), ("C12", c12), ("C13", c13), ("C14", c14), ("C15", c15), ("C16", c16), ("C17", c17), ("C18", c18), ("C19", c19), ("C20", c20));
