//! Exact rational data type with an "undefined" element, for deciding the rational sub-language of
//! the calculus properties without any tolerance.
use exmex::{BinOp, MakeOperators, MatchLiteral, Operator};
use num::bigint::BigInt;
use num::rational::BigRational;
use num::{One, Signed, ToPrimitive, Zero};
use std::fmt;
use std::str::FromStr;

#[derive(Clone, PartialEq, Default)]
pub struct Q(pub Option<BigRational>);

impl Q {
    pub fn undef() -> Q {
        Q(None)
    }
    pub fn int(i: i64) -> Q {
        Q(Some(BigRational::from_integer(BigInt::from(i))))
    }
    pub fn ratio(n: i64, d: i64) -> Q {
        Q(Some(BigRational::new(BigInt::from(n), BigInt::from(d))))
    }
    pub fn is_defined(&self) -> bool {
        self.0.is_some()
    }
    pub fn to_f64(&self) -> Option<f64> {
        self.0.as_ref().and_then(|r| r.to_f64())
    }
    fn bin(a: Q, b: Q, f: impl Fn(&BigRational, &BigRational) -> Option<BigRational>) -> Q {
        match (a.0, b.0) {
            (Some(x), Some(y)) => Q(f(&x, &y)),
            _ => Q(None),
        }
    }
    pub fn add(a: Q, b: Q) -> Q {
        Q::bin(a, b, |x, y| Some(x + y))
    }
    pub fn sub(a: Q, b: Q) -> Q {
        Q::bin(a, b, |x, y| Some(x - y))
    }
    pub fn mul(a: Q, b: Q) -> Q {
        Q::bin(a, b, |x, y| Some(x * y))
    }
    pub fn div(a: Q, b: Q) -> Q {
        Q::bin(a, b, |x, y| if y.is_zero() { None } else { Some(x / y) })
    }
    /// integer exponents only (|e| <= 64); 0^0 = 1 as for floats; 0^negative undefined
    pub fn pow(a: Q, b: Q) -> Q {
        Q::bin(a, b, |x, y| {
            if !y.is_integer() {
                return None;
            }
            let e = y.to_integer().to_i64()?;
            if e.abs() > 64 {
                return None;
            }
            if x.is_zero() && e < 0 {
                return None;
            }
            Some(num::pow::Pow::pow(x, e as i32))
        })
    }
    pub fn neg(a: Q) -> Q {
        Q(a.0.map(|x| -x))
    }
}
impl fmt::Debug for Q {
    fn fmt(&self, f: &mut fmt::Formatter<'_>) -> fmt::Result {
        match &self.0 {
            None => write!(f, "undef"),
            Some(r) => {
                if r.is_integer() {
                    write!(f, "{}", r.to_integer())
                } else {
                    write!(f, "({}/{})", r.numer(), r.denom())
                }
            }
        }
    }
}
impl FromStr for Q {
    type Err = String;
    /// exact reading of a decimal literal `digits[.digits]`
    fn from_str(s: &str) -> Result<Self, Self::Err> {
        let s = s.trim();
        let (int_part, frac_part) = match s.split_once('.') {
            Some((a, b)) => (a, b),
            None => (s, ""),
        };
        if int_part.is_empty() && frac_part.is_empty() {
            return Err(format!("bad literal {s}"));
        }
        if !int_part.chars().all(|c| c.is_ascii_digit()) || !frac_part.chars().all(|c| c.is_ascii_digit()) {
            return Err(format!("bad literal {s}"));
        }
        let digits = format!("{int_part}{frac_part}");
        let n = BigInt::from_str(if digits.is_empty() { "0" } else { &digits }).map_err(|e| e.to_string())?;
        let d = num::pow::pow(BigInt::from(10), frac_part.len());
        Ok(Q(Some(BigRational::new(n, d))))
    }
}
impl From<u8> for Q {
    fn from(v: u8) -> Self {
        Q::int(v as i64)
    }
}
impl From<f32> for Q {
    fn from(v: f32) -> Self {
        Q(BigRational::from_float(v))
    }
}

#[derive(Clone, Debug, PartialEq, Eq, PartialOrd, Ord)]
pub struct QMatcher;
impl MatchLiteral for QMatcher {
    fn is_literal(text: &str) -> Option<&str> {
        crate::term::numeric_prefix(text)
    }
}

pub const UNDEF_FUNCS: [&str; 30] = [
    "abs", "signum", "sin", "cos", "tan", "asin", "acos", "atan", "sinh", "cosh", "tanh", "asinh", "acosh", "atanh", "floor",
    "round", "ceil", "trunc", "fract", "exp", "sqrt", "cbrt", "ln", "log2", "log10", "log", "atan2", "min", "max", "",
];

/// Same names and priorities as the default float table; elementary functions are undefined
/// (they only occur multiplied by a syntactic zero in derivatives of the rational sub-language).
#[derive(Clone, Debug, PartialEq, Eq, PartialOrd, Ord)]
pub struct QOps;
impl MakeOperators<Q> for QOps {
    fn make<'a>() -> Vec<Operator<'a, Q>> {
        let mut v = vec![
            Operator::make_bin("^", BinOp { apply: Q::pow, prio: 4, is_commutative: false }),
            Operator::make_bin("*", BinOp { apply: Q::mul, prio: 2, is_commutative: true }),
            Operator::make_bin("/", BinOp { apply: Q::div, prio: 3, is_commutative: false }),
            Operator::make_bin_unary("+", BinOp { apply: Q::add, prio: 0, is_commutative: true }, |a| a),
            Operator::make_bin_unary("-", BinOp { apply: Q::sub, prio: 1, is_commutative: false }, Q::neg),
        ];
        for name in ["atan2", "min", "max"] {
            v.push(Operator::make_bin(name, BinOp { apply: |_, _| Q::undef(), prio: 0, is_commutative: false }));
        }
        for name in UNDEF_FUNCS.iter().filter(|n| !n.is_empty() && !["atan2", "min", "max"].contains(n)) {
            v.push(Operator::make_unary(name, |_| Q::undef()));
        }
        v
    }
}

pub fn is_positive(q: &Q) -> bool {
    q.0.as_ref().map(|r| r.is_positive()).unwrap_or(false)
}
pub fn one() -> Q {
    Q(Some(BigRational::one()))
}
