//! Driver: proptest-driven tape search with shrinking, bounded-exhaustive enumeration, parallel
//! workers, replay files, known findings, evidence.
use crate::tape::{hash_str, mix};
use proptest::collection::vec;
use proptest::prelude::any;
use proptest::test_runner::{Config, RngAlgorithm, RngSeed, TestCaseError, TestError, TestRunner};
use serde_json::{json, Value};
use std::cell::RefCell;
use std::collections::{BTreeMap, HashSet};
use std::panic::{catch_unwind, AssertUnwindSafe};
use std::sync::atomic::{AtomicBool, Ordering};
use std::sync::Mutex;
use std::time::Instant;

#[derive(Clone, Copy, Debug, PartialEq, Eq)]
pub enum Tier {
    Quick,
    Thorough,
}
impl Tier {
    pub fn name(&self) -> &'static str {
        match self {
            Tier::Quick => "quick",
            Tier::Thorough => "thorough",
        }
    }
    pub fn pick(&self, q: u64, t: u64) -> u64 {
        match self {
            Tier::Quick => q,
            Tier::Thorough => t,
        }
    }
}

pub const VERIF_DIR: &str = "/verif";
/// where replays, evidence and scratch files are written (VERIF_OUT overrides; used by the seed
/// matrix tool to run checks against scratch copies without touching /verif)
pub fn out_dir() -> String {
    std::env::var("VERIF_OUT").unwrap_or_else(|_| VERIF_DIR.to_string())
}
/// a single generated case normally takes microseconds to milliseconds
pub const HANG_SECS: u64 = 90;

/// A case did not return. For C06 ("never panics or hangs") that is the property; for every other
/// property it is reported as inconclusive (exit 2), never as a violation.
pub fn on_hang(prop: &str, sub: &str, seed: u64, tape: &[u32]) -> ! {
    let _ = std::fs::create_dir_all(format!("{}/replays", out_dir()));
    let path = format!("{}/replays/{prop}-{sub}-hang-{:016x}.json", out_dir(), hash_str(&format!("{tape:?}")));
    let body = json!({"property": prop, "subcheck": sub, "seed": seed, "replay": {"tape": tape}, "signature": format!("{prop}/hang"),
        "message": format!("a generated case did not return within {HANG_SECS} s"), "case": null});
    let _ = std::fs::write(&path, serde_json::to_string_pretty(&body).unwrap());
    if prop == "C06" {
        println!("VIOLATION property={prop} replay={path}");
        eprintln!("  [{sub}] hang: a generated case did not return within {HANG_SECS} s (replay with a timeout)");
        std::process::exit(1);
    }
    eprintln!("[{prop}] watchdog: a case of {sub} did not return within {HANG_SECS} s; inconclusive (saved {path})");
    std::process::exit(2);
}
pub const WORKER_STACK: usize = 64 << 20;

#[derive(Clone, Debug)]
pub struct Fail {
    pub msg: String,
    /// short stable identifier of the failure class (compared with known findings)
    pub signature: String,
    /// human readable decoded case
    pub case: Value,
}
pub type CaseResult = Result<(), Fail>;

pub fn fail(signature: &str, msg: String, case: Value) -> Fail {
    Fail { msg, signature: signature.to_string(), case }
}

pub const MAX_SAMPLES_PER_WORKER: usize = 3;

#[derive(Default)]
pub struct Stats {
    pub evals: u64,
    pub nontrivial: HashSet<u64>,
    pub classes: BTreeMap<String, u64>,
    pub excluded: BTreeMap<String, u64>,
    pub samples: Vec<Value>,
    pub frozen: bool,
}
impl Stats {
    pub fn class(&mut self, name: &str) {
        if !self.frozen {
            *self.classes.entry(name.to_string()).or_insert(0) += 1;
        }
    }
    pub fn class_if(&mut self, cond: bool, name: &str) {
        if cond {
            self.class(name);
        }
    }
    pub fn excluded(&mut self, name: &str) {
        if !self.frozen {
            *self.excluded.entry(name.to_string()).or_insert(0) += 1;
        }
    }
    /// registers a non-trivial case by a fingerprint of its content; returns true if new
    pub fn nontrivial(&mut self, fingerprint: &str) -> bool {
        if self.frozen {
            return false;
        }
        self.nontrivial.insert(hash_str(fingerprint))
    }
    pub fn want_sample(&self) -> bool {
        !self.frozen && self.samples.len() < MAX_SAMPLES_PER_WORKER
    }
    pub fn sample(&mut self, v: Value) {
        if self.want_sample() {
            self.samples.push(truncate_strings(v, 300));
        }
    }
    fn merge(&mut self, o: Stats) {
        self.evals += o.evals;
        self.nontrivial.extend(o.nontrivial);
        for (k, v) in o.classes {
            *self.classes.entry(k).or_insert(0) += v;
        }
        for (k, v) in o.excluded {
            *self.excluded.entry(k).or_insert(0) += v;
        }
        self.samples.extend(o.samples);
    }
}

pub type TapeFn = fn(&[u32], &mut Stats) -> CaseResult;
pub type IndexFn = fn(u64, &mut Stats) -> CaseResult;

#[derive(Clone)]
pub enum Kind {
    /// random search over choice tapes with shrinking
    Tape { len: usize, quick: u64, thorough: u64, f: TapeFn },
    /// complete enumeration of a finite indexed domain
    Indexed { n: fn(Tier) -> u64, f: IndexFn, exhaustive: bool },
    /// a sub-check with its own driver (child processes, schedules); `replay` re-executes a saved case
    Custom { run: fn(Tier, u64) -> SubReport, replay: fn(&Value) -> CaseResult },
}

#[derive(Clone)]
pub struct SubCheck {
    pub name: &'static str,
    pub rule: &'static str,
    pub kind: Kind,
}

pub struct SubReport {
    pub name: String,
    pub rule: String,
    pub stats: Stats,
    pub exhaustive: bool,
    pub failures: Vec<(Fail, Value)>, // (failure, replay descriptor)
    pub wall_s: f64,
}

thread_local! {
    static LAST_PANIC: RefCell<String> = const { RefCell::new(String::new()) };
}

pub fn install_panic_hook() {
    std::panic::set_hook(Box::new(|info| {
        let s = info.to_string();
        LAST_PANIC.with(|p| *p.borrow_mut() = s);
    }));
}

/// Runs `f`, turning a panic into `Err(message)`.
pub fn guard<T>(f: impl FnOnce() -> T) -> Result<T, String> {
    match catch_unwind(AssertUnwindSafe(f)) {
        Ok(v) => Ok(v),
        Err(_) => Err(LAST_PANIC.with(|p| p.borrow().clone())),
    }
}

pub fn n_threads() -> usize {
    std::env::var("VERIF_THREADS")
        .ok()
        .and_then(|s| s.parse().ok())
        .unwrap_or_else(|| std::thread::available_parallelism().map(|n| n.get()).unwrap_or(4))
        .clamp(1, 64)
}

fn run_tape_sub(prop: &str, sub: &SubCheck, seed: u64, cases: u64, len: usize, f: TapeFn) -> SubReport {
    let start = Instant::now();
    let threads = n_threads().min(cases.max(1) as usize);
    let per = cases.div_ceil(threads as u64);
    let merged = Mutex::new(Stats::default());
    let failures: Mutex<Vec<(Fail, Value)>> = Mutex::new(vec![]);
    let stop = AtomicBool::new(false);
    // watchdog: the case every worker is executing right now
    let slots: Vec<Mutex<Option<(Instant, Vec<u32>)>>> = (0..threads).map(|_| Mutex::new(None)).collect();
    let finished = std::sync::atomic::AtomicUsize::new(0);
    std::thread::scope(|sc| {
        {
            let slots = &slots;
            let finished = &finished;
            let sub_name = sub.name;
            sc.spawn(move || {
                while finished.load(Ordering::Relaxed) < threads {
                    std::thread::sleep(std::time::Duration::from_millis(250));
                    for s in slots.iter() {
                        let cur = s.lock().unwrap().clone();
                        if let Some((since, tape)) = cur {
                            if since.elapsed().as_secs() >= HANG_SECS {
                                on_hang(prop, sub_name, seed, &tape);
                            }
                        }
                    }
                }
            });
        }
        for w in 0..threads {
            let merged = &merged;
            let failures = &failures;
            let stop = &stop;
            let slots = &slots;
            let finished = &finished;
            let name = sub.name;
            std::thread::Builder::new()
                .stack_size(WORKER_STACK)
                .spawn_scoped(sc, move || {
                    let wseed = mix(mix(seed, hash_str(prop) ^ hash_str(name)), w as u64);
                    let cfg = Config {
                        cases: per as u32,
                        max_shrink_iters: u32::MAX - 1, // u32::MAX is proptest's sentinel for "4 x cases"; the budget is the counter below
                        failure_persistence: None,
                        rng_algorithm: RngAlgorithm::ChaCha,
                        rng_seed: RngSeed::Fixed(wseed),
                        max_global_rejects: 1_000_000,
                        ..Config::default()
                    };
                    let mut runner = TestRunner::new(cfg);
                    let stats = RefCell::new(Stats::default());
                    // own shrink budget: once it is used up every further candidate "passes",
                    // so the library settles on the smallest failing tape found so far
                    let shrink_calls = std::cell::Cell::new(0u32);
                    let lo = len / 3;
                    let res = runner.run(&vec(any::<u32>(), lo..=len), |tape| {
                        if stop.load(Ordering::Relaxed) && !stats.borrow().frozen {
                            // another worker found a failure: finish quickly (cases still count as run)
                            return Ok(());
                        }
                        let mut st = stats.borrow_mut();
                        if !st.frozen {
                            st.evals += 1;
                        } else {
                            shrink_calls.set(shrink_calls.get() + 1);
                            if shrink_calls.get() > 2500 {
                                return Ok(());
                            }
                        }
                        *slots[w].lock().unwrap() = Some((Instant::now(), tape.clone()));
                        let r = guard(|| f(&tape, &mut st));
                        *slots[w].lock().unwrap() = None;
                        match r {
                            Ok(Ok(())) => Ok(()),
                            Ok(Err(fl)) => {
                                st.frozen = true;
                                Err(TestCaseError::fail(fl.msg))
                            }
                            Err(p) => {
                                st.frozen = true;
                                Err(TestCaseError::fail(format!("harness panic: {p}")))
                            }
                        }
                    });
                    if let Err(e) = res {
                        stop.store(true, Ordering::Relaxed);
                        match e {
                            TestError::Fail(reason, tape) => {
                                let mut scratch = Stats::default();
                                let fl = match guard(|| f(&tape, &mut scratch)) {
                                    Ok(Err(fl)) => fl,
                                    Ok(Ok(())) => fail(
                                        "not-reproducible-in-isolation",
                                        format!("the failing case passes when re-run in isolation, i.e. the failure depends on what the thread handled before (first failure: {reason})"),
                                        json!(null),
                                    ),
                                    Err(p) => fail("harness-panic", format!("panic in check: {p}"), json!(null)),
                                };
                                failures.lock().unwrap().push((fl, json!({"tape": tape})));
                            }
                            TestError::Abort(reason) => {
                                failures.lock().unwrap().push((
                                    fail("abort", format!("proptest aborted: {reason}"), json!(null)),
                                    json!({"tape": []}),
                                ));
                            }
                        }
                    }
                    let mut st = stats.into_inner();
                    st.frozen = false;
                    merged.lock().unwrap().merge(st);
                    finished.fetch_add(1, Ordering::Relaxed);
                })
                .expect("spawn worker");
        }
    });
    SubReport {
        name: sub.name.to_string(),
        rule: sub.rule.to_string(),
        stats: merged.into_inner().unwrap(),
        exhaustive: false,
        failures: failures.into_inner().unwrap(),
        wall_s: start.elapsed().as_secs_f64(),
    }
}

fn run_indexed_sub(sub: &SubCheck, n: u64, f: IndexFn, exhaustive: bool) -> SubReport {
    let start = Instant::now();
    let threads = n_threads().min(n.max(1) as usize);
    let merged = Mutex::new(Stats::default());
    let failures: Mutex<Vec<(Fail, Value)>> = Mutex::new(vec![]);
    std::thread::scope(|sc| {
        for w in 0..threads {
            let merged = &merged;
            let failures = &failures;
            std::thread::Builder::new()
                .stack_size(WORKER_STACK)
                .spawn_scoped(sc, move || {
                    let mut st = Stats::default();
                    let mut i = w as u64;
                    let mut nfail = 0;
                    while i < n {
                        st.evals += 1;
                        let r = guard(|| f(i, &mut st));
                        let fl = match r {
                            Ok(Ok(())) => None,
                            Ok(Err(fl)) => Some(fl),
                            Err(p) => Some(fail("harness-panic", format!("panic in check: {p}"), json!(null))),
                        };
                        if let Some(fl) = fl {
                            nfail += 1;
                            if nfail <= 3 {
                                failures.lock().unwrap().push((fl, json!({"index": i})));
                            }
                        }
                        i += threads as u64;
                    }
                    merged.lock().unwrap().merge(st);
                })
                .expect("spawn worker");
        }
    });
    SubReport {
        name: sub.name.to_string(),
        rule: sub.rule.to_string(),
        stats: merged.into_inner().unwrap(),
        exhaustive,
        failures: failures.into_inner().unwrap(),
        wall_s: start.elapsed().as_secs_f64(),
    }
}

pub fn run_sub(prop: &str, sub: &SubCheck, tier: Tier, seed: u64) -> SubReport {
    match sub.kind {
        Kind::Tape { len, quick, thorough, f } => {
            let scale: f64 =
                std::env::var("VERIF_SCALE").ok().and_then(|s| s.parse().ok()).unwrap_or(1.0);
            let cases = ((tier.pick(quick, thorough) as f64) * scale).max(1.0) as u64;
            run_tape_sub(prop, sub, seed, cases, len, f)
        }
        Kind::Indexed { n, f, exhaustive } => run_indexed_sub(sub, n(tier), f, exhaustive),
        Kind::Custom { run, .. } => {
            let mut r = run(tier, seed);
            r.name = sub.name.to_string();
            r.rule = sub.rule.to_string();
            r
        }
    }
}

// ---------------------------------------------------------------------------------------------
// known findings

#[derive(Clone, Debug)]
pub struct KnownFinding {
    pub id: String,
    pub properties: Vec<String>,
    pub status: String,
    pub signature: String,
    pub what: String,
}

pub fn load_known_findings() -> Vec<KnownFinding> {
    let path = format!("{VERIF_DIR}/known_findings.json");
    let Ok(s) = std::fs::read_to_string(&path) else { return vec![] };
    let Ok(v) = serde_json::from_str::<Value>(&s) else { return vec![] };
    let mut out = vec![];
    if let Some(arr) = v.get("findings").and_then(|a| a.as_array()) {
        for f in arr {
            let g = |k: &str| f.get(k).and_then(|x| x.as_str()).unwrap_or("").to_string();
            let mut properties: Vec<String> = f
                .get("properties")
                .and_then(|a| a.as_array())
                .map(|a| a.iter().filter_map(|x| x.as_str().map(|s| s.to_string())).collect())
                .unwrap_or_default();
            if !g("property").is_empty() {
                properties.push(g("property"));
            }
            out.push(KnownFinding {
                id: g("id"),
                properties,
                status: g("status"),
                signature: g("signature"),
                what: g("what"),
            });
        }
    }
    out
}

// ---------------------------------------------------------------------------------------------
// property level: run all sub-checks, evidence, exit code

pub struct Outcome {
    pub violations: usize,
    pub known: usize,
}

pub fn run_property(prop: &str, level_text: &str, subs: &[SubCheck], tier: Tier, seed: u64, assumptions: &[&str]) -> Outcome {
    let start = Instant::now();
    let known = load_known_findings();
    let only: Option<String> = std::env::var("VERIF_ONLY").ok();
    let mut reports = vec![];
    for s in subs {
        if let Some(o) = &only {
            if !o.split(',').any(|x| x == s.name) {
                continue;
            }
        }
        let r = run_sub(prop, s, tier, seed);
        eprintln!(
            "[{prop}] {:28} cases={:9} nontrivial={:8} failures={} ({:.1}s)",
            r.name,
            r.stats.evals,
            r.stats.nontrivial.len(),
            r.failures.len(),
            r.wall_s
        );
        reports.push(r);
    }
    let mut violations = 0usize;
    let mut known_hits: BTreeMap<String, usize> = BTreeMap::new();
    let mut seen_sigs: HashSet<String> = HashSet::new();
    let _ = std::fs::create_dir_all(format!("{}/replays", out_dir()));
    for r in reports.iter_mut() {
        // deterministic order of the reported failures (workers finish in any order)
        r.failures.sort_by(|a, b| (a.0.signature.as_str(), a.0.msg.as_str()).cmp(&(b.0.signature.as_str(), b.0.msg.as_str())));
    }
    for r in &reports {
        for (fl, desc) in &r.failures {
            let kf = known
                .iter()
                .find(|k| k.properties.iter().any(|p| p == prop) && k.status == "open" && k.signature == fl.signature);
            if let Some(k) = kf {
                let e = known_hits.entry(k.id.clone()).or_insert(0);
                *e += 1;
                if *e == 1 {
                    println!("KNOWN-FINDING: property={prop} {} ({}): {}", k.id, k.signature, one_line(&fl.msg));
                }
                continue;
            }
            violations += 1;
            let key = format!("{}|{}", r.name, fl.signature);
            if !seen_sigs.insert(key) && violations > 8 {
                continue;
            }
            let body = json!({
                "property": prop,
                "subcheck": r.name,
                "tier": tier.name(),
                "seed": seed,
                "replay": desc,
                "signature": fl.signature,
                "message": fl.msg,
                "case": fl.case,
            });
            let text = serde_json::to_string_pretty(&body).unwrap();
            let path = format!(
                "{}/replays/{prop}-{}-{:016x}.json",
                out_dir(),
                r.name,
                hash_str(&format!("{}{}", fl.signature, desc))
            );
            let _ = std::fs::write(&path, text);
            println!("VIOLATION property={prop} replay={path}");
            eprintln!("  [{}] {}: {}", r.name, fl.signature, one_line(&fl.msg));
        }
    }
    // evidence
    let mut evaluations = 0u64;
    let mut distinct = 0u64;
    let mut samples: Vec<Value> = vec![];
    let mut subs_json = vec![];
    let mut rules = vec![];
    let mut all_exhaustive = !reports.is_empty();
    for r in &reports {
        evaluations += r.stats.evals;
        distinct += r.stats.nontrivial.len() as u64;
        all_exhaustive &= r.exhaustive;
        for s in r.stats.samples.iter().take(4) {
            samples.push(json!({"subcheck": r.name, "case": s}));
        }
        rules.push(format!("[{}] {}", r.name, r.rule));
        subs_json.push(json!({
            "name": r.name,
            "evaluations": r.stats.evals,
            "distinct_nontrivial": r.stats.nontrivial.len(),
            "exhaustive": r.exhaustive,
            "classes": r.stats.classes,
            "excluded_by_construction": r.stats.excluded,
            "failures": r.failures.len(),
            "wall_s": (r.wall_s * 100.0).round() / 100.0,
        }));
    }
    let ev = json!({
        "property_id": prop,
        "tier": tier.name(),
        "seed": seed,
        "level": "exploration",
        "coverage": {
            "evaluations": evaluations,
            "distinct_nontrivial": distinct,
            "rule": rules.join(" || "),
            "samples": samples,
            "exhaustive": all_exhaustive,
            "subchecks": subs_json,
            "explanation": level_text,
        },
        "assumptions": assumptions,
        "wall_s": (start.elapsed().as_secs_f64() * 100.0).round() / 100.0,
        "violations": violations,
        "known_findings_reported": known_hits,
    });
    let _ = std::fs::create_dir_all(format!("{}/evidence", out_dir()));
    let evp = format!("{}/evidence/{prop}.json", out_dir());
    if let Err(e) = std::fs::write(&evp, serde_json::to_string_pretty(&ev).unwrap()) {
        eprintln!("cannot write evidence {evp}: {e}");
    }
    eprintln!(
        "[{prop}] tier={} seed={seed} evaluations={evaluations} distinct_nontrivial={distinct} violations={violations} known={} wall={:.1}s",
        tier.name(),
        known_hits.len(),
        start.elapsed().as_secs_f64()
    );
    Outcome { violations, known: known_hits.len() }
}

pub fn one_line(s: &str) -> String {
    let s: String = s.chars().map(|c| if c == '\n' { ' ' } else { c }).collect();
    if s.chars().count() > 400 {
        let t: String = s.chars().take(400).collect();
        format!("{t}…")
    } else {
        s
    }
}

/// Re-executes a saved failure without the property-testing library.
pub fn replay(subs: &[SubCheck], body: &Value) -> Result<CaseResult, String> {
    let name = body.get("subcheck").and_then(|x| x.as_str()).ok_or("no subcheck")?;
    let sub = subs.iter().find(|s| s.name == name).ok_or(format!("unknown subcheck {name}"))?;
    let desc = body.get("replay").ok_or("no replay descriptor")?;
    let mut st = Stats::default();
    match sub.kind {
        Kind::Tape { f, .. } => {
            let tape: Vec<u32> = desc
                .get("tape")
                .and_then(|t| t.as_array())
                .ok_or("no tape")?
                .iter()
                .map(|x| x.as_u64().unwrap_or(0) as u32)
                .collect();
            guard(|| f(&tape, &mut st)).map_err(|p| format!("panic: {p}"))
        }
        Kind::Indexed { f, .. } => {
            let i = desc.get("index").and_then(|x| x.as_u64()).ok_or("no index")?;
            guard(|| f(i, &mut st)).map_err(|p| format!("panic: {p}"))
        }
        Kind::Custom { replay, .. } => guard(|| replay(desc)).map_err(|p| format!("panic: {p}")),
    }
    .map(Ok)
    .unwrap_or_else(|e| Ok(Err(fail("harness-panic", e, json!(null)))))
}

pub fn truncate_strings(v: Value, max: usize) -> Value {
    match v {
        Value::String(s) => {
            if s.chars().count() > max {
                let t: String = s.chars().take(max).collect();
                Value::String(format!("{t}… ({} chars)", s.chars().count()))
            } else {
                Value::String(s)
            }
        }
        Value::Array(a) => Value::Array(a.into_iter().map(|x| truncate_strings(x, max)).collect()),
        Value::Object(o) => Value::Object(o.into_iter().map(|(k, x)| (k, truncate_strings(x, max))).collect()),
        x => x,
    }
}
