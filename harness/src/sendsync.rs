fn main(){}
