//! C20, type-level part: flat and deep expressions over thread-safe data types are Send and Sync.
//! This binary only has to compile; /verif/run.sh reports a C20 violation if it does not.
use exmex::{DeepEx, FlatEx, Val, ValMatcher, ValOpsFactory};
use exmex_verif::term::{DynOps, Term, TermMatcher};

fn assert_send_sync<T: Send + Sync>() {}

fn main() {
    assert_send_sync::<FlatEx<f64>>();
    assert_send_sync::<FlatEx<f32>>();
    assert_send_sync::<DeepEx<'static, f64>>();
    assert_send_sync::<FlatEx<Val<i32, f64>, ValOpsFactory<i32, f64>, ValMatcher>>();
    assert_send_sync::<DeepEx<'static, Val<i32, f64>, ValOpsFactory<i32, f64>, ValMatcher>>();
    assert_send_sync::<FlatEx<Term, DynOps, TermMatcher>>();
    assert_send_sync::<DeepEx<'static, Term, DynOps, TermMatcher>>();
    assert_send_sync::<exmex::ExError>();
    println!("Send + Sync hold for FlatEx and DeepEx over f64, f32, Val and the term algebra");
}
