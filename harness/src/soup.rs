//! "Token soup": sloppy / arbitrary strings over the token alphabet of a table, many of which
//! the parsers accept although no tree produced them.
use crate::gen::*;
use crate::tape::Tape;
use crate::term::OpSpec;

pub fn soup_alphabet(table: &[OpSpec], pool: &VarPool) -> Vec<String> {
    let mut a: Vec<String> = vec!["(".into(), ")".into(), "(".into(), ")".into(), ",".into()];
    for o in table {
        a.push(o.name.to_string());
        if o.bin.is_some() {
            a.push(o.name.to_string());
        }
    }
    for (i, n) in pool.names.iter().enumerate() {
        if pool.bare_ok[i] {
            a.push(n.clone());
        }
        a.push(format!("{{{n}}}"));
    }
    for l in ["1", "2", "0", "3.", ".5", "10"] {
        a.push(l.to_string());
    }
    a
}

fn join_sloppy(toks: &[String], t: &mut Tape) -> String {
    let mut s = String::new();
    for (i, tk) in toks.iter().enumerate() {
        if i > 0 {
            // mostly one space so that tokens stay what they are; sometimes none, sometimes two
            match t.weighted(&[6, 3, 1]) {
                0 => s.push(' '),
                1 => {}
                _ => s.push_str("  "),
            }
        }
        s.push_str(tk);
    }
    s
}

/// Strategy A: a rendered well-formed expression with 0-3 token-level mutations.
/// Strategy B: a random token sequence with operand/operator alternation bias.
pub fn gen_soup(t: &mut Tape, table: &[OpSpec], pool: &VarPool, base: &[Tok]) -> (String, &'static str) {
    let alphabet = soup_alphabet(table, pool);
    if t.chance(60) && !base.is_empty() {
        let mut toks: Vec<String> = base.iter().map(|x| x.text.clone()).collect();
        let k = t.choose(4);
        for _ in 0..k {
            if toks.is_empty() {
                break;
            }
            let pos = t.choose(toks.len());
            match t.choose(5) {
                0 => {
                    toks.remove(pos);
                }
                1 => toks.insert(pos, t.pick(&alphabet).clone()),
                2 => {
                    let x = toks[pos].clone();
                    toks.insert(pos, x);
                }
                3 => {
                    let other = t.choose(toks.len());
                    toks.swap(pos, other);
                }
                _ => toks[pos] = t.pick(&alphabet).clone(),
            }
        }
        (join_sloppy(&toks, t), "mutated")
    } else {
        let n = 1 + t.choose(12);
        let mut toks = vec![];
        let ops: Vec<String> = table.iter().filter(|o| !o.constant).map(|o| o.name.to_string()).collect();
        let mut operands: Vec<String> = vec!["1".into(), "2".into(), ".5".into()];
        for (i, nm) in pool.names.iter().enumerate() {
            operands.push(if pool.bare_ok[i] && t.chance(50) { nm.clone() } else { format!("{{{nm}}}") });
        }
        for o in table.iter().filter(|o| o.constant) {
            operands.push(o.name.to_string());
        }
        let mut want_operand = true;
        for _ in 0..n {
            match t.weighted(&[6, 2, 2]) {
                0 => {
                    if want_operand || ops.is_empty() {
                        toks.push(t.pick(&operands).clone());
                    } else {
                        toks.push(t.pick(&ops).clone());
                    }
                    want_operand = !want_operand;
                }
                1 => toks.push(t.pick(&alphabet).clone()),
                _ => toks.push(if t.chance(50) { "(".into() } else { ")".into() }),
            }
        }
        (join_sloppy(&toks, t), "random")
    }
}
