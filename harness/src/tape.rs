//! Choice tape: all random decisions of a generated case are read from one `Vec<u32>` that the
//! property-testing library generates and shrinks (delete words, lower words). Alternative 0 is
//! always the simplest one and an exhausted tape yields 0, so shrinking produces small cases.
//! The same decoder turns fuzzer bytes or a saved replay tape into the structured case.

pub struct Tape<'a> {
    words: &'a [u32],
    pos: usize,
}

impl<'a> Tape<'a> {
    pub fn new(words: &'a [u32]) -> Self {
        Tape { words, pos: 0 }
    }
    pub fn raw(&mut self) -> u32 {
        let v = self.words.get(self.pos).copied().unwrap_or(0);
        self.pos += 1;
        v
    }
    /// uniform in 0..n (monotone in the tape word, so lowering a word lowers the choice)
    pub fn choose(&mut self, n: usize) -> usize {
        if n <= 1 {
            // still consume nothing: keeps tapes short
            return 0;
        }
        ((self.raw() as u64 * n as u64) >> 32) as usize
    }
    /// true with probability pct/100; false is the "simple" alternative
    pub fn chance(&mut self, pct: u32) -> bool {
        if pct == 0 {
            return false;
        }
        // high words => true, so that shrinking towards 0 switches features off
        let r = ((self.raw() as u64 * 100) >> 32) as u32;
        r >= 100 - pct.min(100)
    }
    pub fn range(&mut self, lo: usize, hi_incl: usize) -> usize {
        lo + self.choose(hi_incl - lo + 1)
    }
    pub fn pick<'b, T>(&mut self, xs: &'b [T]) -> &'b T {
        &xs[self.choose(xs.len())]
    }
    /// weighted choice; weights need not sum to anything particular; index 0 should be simplest
    pub fn weighted(&mut self, weights: &[u32]) -> usize {
        let total: u64 = weights.iter().map(|w| *w as u64).sum();
        if total == 0 {
            return 0;
        }
        let mut x = (self.raw() as u64 * total) >> 32;
        for (i, w) in weights.iter().enumerate() {
            if x < *w as u64 {
                return i;
            }
            x -= *w as u64;
        }
        weights.len() - 1
    }
    pub fn unit_f64(&mut self) -> f64 {
        self.raw() as f64 / 4294967296.0
    }
    pub fn exhausted(&self) -> bool {
        self.pos >= self.words.len()
    }
    pub fn consumed(&self) -> usize {
        self.pos
    }
}

/// Simple deterministic mixer for deriving seeds.
pub fn mix(a: u64, b: u64) -> u64 {
    let mut x = a ^ b.wrapping_mul(0x9E3779B97F4A7C15);
    x ^= x >> 30;
    x = x.wrapping_mul(0xBF58476D1CE4E5B9);
    x ^= x >> 27;
    x = x.wrapping_mul(0x94D049BB133111EB);
    x ^= x >> 31;
    x
}
pub fn hash_str(s: &str) -> u64 {
    // FNV-1a, stable across runs (no RandomState)
    let mut h: u64 = 0xcbf29ce484222325;
    for b in s.as_bytes() {
        h ^= *b as u64;
        h = h.wrapping_mul(0x100000001b3);
    }
    h
}
