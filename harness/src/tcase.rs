//! A generated case over the term algebra: operator table x variable pool x tree x rendering.
use crate::gen::*;
use crate::tape::Tape;
use crate::term::{describe_table, norm, set_table, DynOps, OpSpec, Term, TermMatcher};
use exmex::prelude::*;
use exmex::DeepEx;
use serde_json::{json, Value};

pub type F = FlatEx<Term, DynOps, TermMatcher>;
pub type D<'a> = DeepEx<'a, Term, DynOps, TermMatcher>;

pub struct TermCase {
    pub table: Vec<OpSpec>,
    pub pool: VarPool,
    pub tree: Tree,
    pub text: String,
    pub toks: Vec<Tok>,
    pub info: RenderInfo,
    pub facts: TreeFacts,
    /// sorted distinct variable names of the tree
    pub names: Vec<String>,
    /// values (atoms by pool index) in the order of `names`
    pub vals: Vec<Term>,
    /// reference value, normalised modulo AC of flagged operators
    pub refv: Term,
}

#[derive(Clone, Debug, Default)]
pub struct CaseCfg {
    pub table: TableCfg,
    pub tree: TreeCfg,
    pub render: RenderCfg,
    pub max_vars: usize,
    pub weird_pct: u32,
}

pub fn gen_term_case(t: &mut Tape, cfg: &CaseCfg) -> TermCase {
    let table = gen_table(t, &cfg.table);
    let pool = gen_var_pool(t, &table, cfg.max_vars, cfg.weird_pct);
    let tree = gen_tree(t, &table, pool.names.len(), &cfg.tree);
    finish_case(t, table, pool, tree, &cfg.render)
}

pub fn finish_case(t: &mut Tape, table: Vec<OpSpec>, pool: VarPool, tree: Tree, rcfg: &RenderCfg) -> TermCase {
    let (text, toks, info) = render(&tree, &table, &pool, rcfg, t);
    let facts = tree_facts(&tree, &table);
    let (names, vals) = expected_vars(&tree, &pool);
    let refv = norm(&reference(&tree), &table);
    set_table(&table);
    TermCase { table, pool, tree, text, toks, info, facts, names, vals, refv }
}

impl TermCase {
    pub fn describe(&self) -> Value {
        json!({
            "text": self.text,
            "table": describe_table(&self.table),
            "tree": tree_to_string(&self.tree, &self.table, &self.pool),
            "vars": self.names,
            "expected": format!("{:?}", self.refv),
        })
    }
    pub fn norm(&self, t: &Term) -> Term {
        norm(t, &self.table)
    }
}

pub fn ex_msg<T>(r: exmex::ExResult<T>) -> Result<T, String> {
    r.map_err(|e| e.msg().to_string())
}
