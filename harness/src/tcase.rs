//! A generated case over the term algebra: operator table x variable pool x tree x rendering.
use crate::gen::*;
use crate::tape::Tape;
use crate::term::{describe_table, norm, set_table, DynOps, OpSpec, Term, TermMatcher};
use exmex::prelude::*;
use exmex::DeepEx;
use serde_json::{json, Value};

pub type F = FlatEx<Term, DynOps, TermMatcher>;
pub type D<'a> = DeepEx<'a, Term, DynOps, TermMatcher>;

pub struct TermCase {
    pub table: Vec<OpSpec>,
    pub pool: VarPool,
    pub tree: Tree,
    pub text: String,
    pub toks: Vec<Tok>,
    pub info: RenderInfo,
    pub facts: TreeFacts,
    /// sorted distinct variable names of the tree
    pub names: Vec<String>,
    /// values (atoms by pool index) in the order of `names`
    pub vals: Vec<Term>,
    /// reference value, normalised modulo AC of flagged operators
    pub refv: Term,
}

#[derive(Clone, Debug, Default)]
pub struct CaseCfg {
    pub table: TableCfg,
    pub tree: TreeCfg,
    pub render: RenderCfg,
    pub max_vars: usize,
    pub weird_pct: u32,
}

pub fn gen_term_case(t: &mut Tape, cfg: &CaseCfg) -> TermCase {
    let table = gen_table(t, &cfg.table);
    let pool = gen_var_pool(t, &table, cfg.max_vars, cfg.weird_pct);
    let tree = gen_tree(t, &table, pool.names.len(), &cfg.tree);
    finish_case(t, table, pool, tree, &cfg.render)
}

pub fn finish_case(t: &mut Tape, table: Vec<OpSpec>, pool: VarPool, tree: Tree, rcfg: &RenderCfg) -> TermCase {
    let (text, toks, info) = render(&tree, &table, &pool, rcfg, t);
    let facts = tree_facts(&tree, &table);
    let (names, vals) = expected_vars(&tree, &pool);
    let refv = norm(&reference(&tree), &table);
    set_table(&table);
    TermCase { table, pool, tree, text, toks, info, facts, names, vals, refv }
}

impl TermCase {
    pub fn describe(&self) -> Value {
        json!({
            "text": self.text,
            "table": describe_table(&self.table),
            "table_spec": table_spec(&self.table),
            "tree": tree_to_string(&self.tree, &self.table, &self.pool),
            "vars": self.names,
            "expected": format!("{:?}", self.refv),
        })
    }
    pub fn norm(&self, t: &Term) -> Term {
        norm(t, &self.table)
    }
}

pub fn ex_msg<T>(r: exmex::ExResult<T>) -> Result<T, String> {
    r.map_err(|e| e.msg().to_string())
}

#[derive(Clone, Copy, Debug, PartialEq, Eq)]
pub enum Route {
    Flat,
    FlatWo,
    FlatWoCompiled,
    FlatWoCompiledTwice,
    Deep,
    FlatToDeep,
    WoToDeep,
    DeepToFlat,
    FlatDeepFlat,
    DeepFlatDeep,
}
impl Route {
    pub fn name(&self) -> &'static str {
        match self {
            Route::Flat => "flat",
            Route::FlatWo => "flat_wo_compile",
            Route::FlatWoCompiled => "flat_wo_compile+compile",
            Route::FlatWoCompiledTwice => "flat_wo_compile+compile+compile",
            Route::Deep => "deep",
            Route::FlatToDeep => "flat->deep",
            Route::WoToDeep => "flat_wo_compile->deep",
            Route::DeepToFlat => "deep->flat",
            Route::FlatDeepFlat => "flat->deep->flat",
            Route::DeepFlatDeep => "deep->flat->deep",
        }
    }
}

pub struct Denotation {
    pub names: Vec<String>,
    pub value: Term,
}

/// Parses `text` along a route and evaluates it with `vals(names)`.
pub fn denote(route: Route, text: &str, vals: &dyn Fn(&[String]) -> Vec<Term>) -> Result<Denotation, String> {
    fn fin<'a, E: Express<'a, Term>>(e: &E, vals: &dyn Fn(&[String]) -> Vec<Term>) -> Result<Denotation, String> {
        let names = e.var_names().to_vec();
        let v = ex_msg(e.eval(&vals(&names)))?;
        Ok(Denotation { names, value: v })
    }
    /// flat expressions: the owning entry points must give what the borrowing one gives
    fn fin_flat(e: &F, vals: &dyn Fn(&[String]) -> Vec<Term>) -> Result<Denotation, String> {
        let d = fin(e, vals)?;
        let v = vals(&d.names);
        let by_vec = ex_msg(e.eval_vec(v.clone())).map_err(|m| format!("eval_vec fails although eval succeeds: {m}"))?;
        let by_iter = ex_msg(e.eval_iter(v.into_iter())).map_err(|m| format!("eval_iter fails although eval succeeds: {m}"))?;
        if by_vec != d.value || by_iter != d.value {
            return Err(format!("eval gives {:?}, eval_vec {:?}, eval_iter {:?}", d.value, by_vec, by_iter));
        }
        Ok(d)
    }
    match route {
        Route::Flat => fin_flat(&ex_msg(F::parse(text))?, vals),
        Route::FlatWo => fin_flat(&ex_msg(F::parse_wo_compile(text))?, vals),
        Route::FlatWoCompiled => {
            let mut e = ex_msg(F::parse_wo_compile(text))?;
            e.compile();
            fin_flat(&e, vals)
        }
        Route::FlatWoCompiledTwice => {
            let mut e = ex_msg(F::parse_wo_compile(text))?;
            e.compile();
            e.compile();
            fin(&e, vals)
        }
        Route::Deep => fin(&ex_msg(D::parse(text))?, vals),
        Route::FlatToDeep => fin(&ex_msg(ex_msg(F::parse(text))?.to_deepex())?, vals),
        Route::WoToDeep => fin(&ex_msg(ex_msg(F::parse_wo_compile(text))?.to_deepex())?, vals),
        Route::DeepToFlat => fin_flat(&ex_msg(F::from_deepex(ex_msg(D::parse(text))?))?, vals),
        Route::FlatDeepFlat => fin_flat(&ex_msg(F::from_deepex(ex_msg(ex_msg(F::parse(text))?.to_deepex())?))?, vals),
        Route::DeepFlatDeep => {
            fin(&ex_msg(ex_msg(F::from_deepex(ex_msg(D::parse(text))?))?.to_deepex())?, vals)
        }
    }
}

impl TermCase {
    /// values for a list of names according to the case's pool (atoms by pool index)
    pub fn vals_for(&self, names: &[String]) -> Vec<Term> {
        names
            .iter()
            .map(|n| match self.pool.names.iter().position(|p| p == n) {
                Some(i) => Term::Atom(i as u32),
                None => Term::Poison,
            })
            .collect()
    }
    /// Checks one route against the reference of the tree.
    pub fn check_route(&self, prop: &str, route: Route) -> crate::runner::CaseResult {
        use crate::runner::{fail, guard};
        let mk = |k: &str, msg: String| {
            let mut c = self.describe();
            c["route"] = json!(route.name());
            fail(&format!("{prop}/{}/{k}", route.name()), msg, c)
        };
        let vf = |n: &[String]| self.vals_for(n);
        match guard(|| denote(route, &self.text, &vf)) {
            Err(p) => Err(mk("panic", format!("panic on well-formed text `{}` via {}: {p}", self.text, route.name()))),
            Ok(Err(e)) => Err(mk("rejected", format!("well-formed text `{}` fails via {}: {e}", self.text, route.name()))),
            Ok(Ok(d)) => {
                if d.names != self.names {
                    return Err(mk(
                        "var-names",
                        format!("`{}` via {}: var_names {:?}, expected {:?}", self.text, route.name(), d.names, self.names),
                    ));
                }
                let vn = self.norm(&d.value);
                if vn != self.refv {
                    return Err(mk(
                        "wrong-value",
                        format!("`{}` via {} denotes {:?}, reference semantics give {:?}", self.text, route.name(), vn, self.refv),
                    ));
                }
                Ok(())
            }
        }
    }
}

pub fn table_spec(table: &[OpSpec]) -> Value {
    Value::Array(
        table
            .iter()
            .map(|o| json!([o.name, o.bin.map(|b| b.0), o.bin.map(|b| b.1).unwrap_or(false), o.unary, o.constant]))
            .collect(),
    )
}
pub fn table_from_spec(v: &Value) -> Vec<OpSpec> {
    v.as_array()
        .map(|a| {
            a.iter()
                .map(|o| OpSpec {
                    name: crate::term::intern(o[0].as_str().unwrap_or("?")),
                    bin: o[1].as_i64().map(|p| (p, o[2].as_bool().unwrap_or(false))),
                    unary: o[3].as_bool().unwrap_or(false),
                    constant: o[4].as_bool().unwrap_or(false),
                })
                .collect()
        })
        .unwrap_or_default()
}

/// Debug helper: evaluates a text along all routes with the given table and prints the results.
pub fn probe(table: &[OpSpec], text: &str) {
    set_table(table);
    let vf = |names: &[String]| -> Vec<Term> { (0..names.len()).map(|i| Term::Atom(i as u32)).collect() };
    for r in [
        Route::Flat,
        Route::FlatWo,
        Route::FlatWoCompiled,
        Route::Deep,
        Route::FlatToDeep,
        Route::WoToDeep,
        Route::DeepToFlat,
    ] {
        match crate::runner::guard(|| denote(r, text, &vf)) {
            Ok(Ok(d)) => println!("{:28} {:?}  {:?}", r.name(), d.names, norm(&d.value, table)),
            Ok(Err(e)) => println!("{:28} ERR {e}", r.name()),
            Err(p) => println!("{:28} PANIC {p}", r.name()),
        }
    }
    if let Ok(d) = D::parse(text) {
        println!("deep unparse: {}", d.unparse());
    }
}
