//! Free term algebra data type + run-time configurable operator table.
//!
//! Evaluating an exmex expression over `Term` returns the tree exmex actually applied, so a
//! mis-grouping is a structural difference and "for all variable values" is decided symbolically.
use exmex::{BinOp, MakeOperators, MatchLiteral, Operator};
use std::cell::{Cell, RefCell};
use std::collections::HashMap;
use std::fmt;
use std::str::FromStr;

#[derive(PartialEq, Eq, PartialOrd, Ord, Hash)]
pub enum Term {
    Lit(String),
    Atom(u32),
    Un(u16, Box<Term>),
    Bin(u16, Box<Term>, Box<Term>),
    Poison,
    Moved,
}

/// Atoms >= CONST_BASE denote the constants of the operator table (CONST_BASE + table slot).
pub const CONST_BASE: u32 = 1_000_000;

thread_local! {
    pub static CLONES: RefCell<HashMap<u32, usize>> = RefCell::new(HashMap::new());
    pub static COUNT_CLONES: Cell<bool> = const { Cell::new(false) };
    pub static MOVED_SEEN: Cell<usize> = const { Cell::new(0) };
    pub static TABLE: RefCell<Vec<OpSpec>> = const { RefCell::new(Vec::new()) };
}

impl Clone for Term {
    fn clone(&self) -> Self {
        match self {
            Term::Lit(s) => Term::Lit(s.clone()),
            Term::Atom(i) => {
                if COUNT_CLONES.with(|c| c.get()) {
                    CLONES.with(|c| *c.borrow_mut().entry(*i).or_insert(0) += 1);
                }
                Term::Atom(*i)
            }
            Term::Un(o, a) => Term::Un(*o, a.clone()),
            Term::Bin(o, a, b) => Term::Bin(*o, a.clone(), b.clone()),
            Term::Poison => Term::Poison,
            Term::Moved => Term::Moved,
        }
    }
}
impl Default for Term {
    fn default() -> Self {
        Term::Moved
    }
}
impl fmt::Debug for Term {
    fn fmt(&self, f: &mut fmt::Formatter<'_>) -> fmt::Result {
        match self {
            Term::Lit(s) => write!(f, "{s}"),
            Term::Atom(i) => write!(f, "[a{i}]"),
            Term::Un(o, a) => write!(f, "[u{o} {a:?}]"),
            Term::Bin(o, a, b) => write!(f, "[b{o} {a:?} {b:?}]"),
            Term::Poison => write!(f, "[p]"),
            Term::Moved => write!(f, "[m]"),
        }
    }
}
impl fmt::Display for Term {
    fn fmt(&self, f: &mut fmt::Formatter<'_>) -> fmt::Result {
        write!(f, "{self:?}")
    }
}

fn parse_term(s: &str) -> Option<(Term, &str)> {
    let s = s.trim_start_matches(' ');
    if let Some(rest) = s.strip_prefix('[') {
        let rest = rest.trim_start_matches(' ');
        let kind = rest.chars().next()?;
        if !kind.is_ascii() {
            return None;
        }
        let rest1 = &rest[1..];
        let nd = rest1.chars().take_while(|c| c.is_ascii_digit()).count();
        let id: u32 = if nd > 0 { rest1[..nd].parse().ok()? } else { 0 };
        let rest2 = &rest1[nd..];
        fn close(r: &str) -> Option<&str> {
            r.trim_start_matches(' ').strip_prefix(']')
        }
        match kind {
            'a' if nd > 0 => Some((Term::Atom(id), close(rest2)?)),
            'p' if nd == 0 => Some((Term::Poison, close(rest2)?)),
            'm' if nd == 0 => Some((Term::Moved, close(rest2)?)),
            'u' if nd > 0 => {
                let (a, r) = parse_term(rest2)?;
                Some((Term::Un(id as u16, Box::new(a)), close(r)?))
            }
            'b' if nd > 0 => {
                let (a, r) = parse_term(rest2)?;
                let (b, r) = parse_term(r)?;
                Some((Term::Bin(id as u16, Box::new(a), Box::new(b)), close(r)?))
            }
            _ => None,
        }
    } else {
        let n = numeric_prefix(s)?;
        Some((Term::Lit(n.to_string()), &s[n.len()..]))
    }
}

/// The documented number literal: digits with at most one dot, not a lone dot.
pub fn numeric_prefix(text: &str) -> Option<&str> {
    let mut n_dots = 0;
    let mut n = 0usize;
    for c in text.chars() {
        if c == '.' {
            n_dots += 1;
            n += 1;
        } else if c.is_ascii_digit() {
            n += 1;
        } else {
            break;
        }
    }
    if (n > 1 && n_dots < 2) || (n == 1 && n_dots == 0) {
        Some(&text[..n])
    } else {
        None
    }
}
impl FromStr for Term {
    type Err = String;
    fn from_str(s: &str) -> Result<Self, Self::Err> {
        match parse_term(s) {
            Some((t, "")) => Ok(t),
            _ => Err(format!("bad term literal {s}")),
        }
    }
}
impl From<u8> for Term {
    fn from(v: u8) -> Self {
        Term::Lit(format!("{v}"))
    }
}
impl From<f32> for Term {
    fn from(v: f32) -> Self {
        Term::Lit(format!("{v:?}"))
    }
}
#[derive(Clone, Debug, PartialEq, Eq, PartialOrd, Ord)]
pub struct TermMatcher;
impl MatchLiteral for TermMatcher {
    fn is_literal(text: &str) -> Option<&str> {
        if text.starts_with('[') {
            let (_, rest) = parse_term(text)?;
            Some(&text[..text.len() - rest.len()])
        } else {
            numeric_prefix(text)
        }
    }
}

fn chk(t: Term) -> Term {
    if matches!(t, Term::Moved) {
        MOVED_SEEN.with(|m| m.set(m.get() + 1));
        Term::Poison
    } else {
        t
    }
}
fn bin_fn<const ID: u16>(a: Term, b: Term) -> Term {
    Term::Bin(ID, Box::new(chk(a)), Box::new(chk(b)))
}
fn un_fn<const ID: u16>(a: Term) -> Term {
    Term::Un(ID, Box::new(chk(a)))
}
macro_rules! fn_table {
    ($f:ident, $t:ty, $($i:literal)*) => { [ $( $f::<$i> as $t ),* ] };
}
pub const NOPS: usize = 80;
static BIN_FNS: [fn(Term, Term) -> Term; NOPS] = fn_table!(bin_fn, fn(Term, Term) -> Term,
    0 1 2 3 4 5 6 7 8 9 10 11 12 13 14 15 16 17 18 19 20 21 22 23 24 25 26 27 28 29 30 31
    32 33 34 35 36 37 38 39 40 41 42 43 44 45 46 47 48 49 50 51 52 53 54 55 56 57 58 59 60 61 62 63
    64 65 66 67 68 69 70 71 72 73 74 75 76 77 78 79);
static UN_FNS: [fn(Term) -> Term; NOPS] = fn_table!(un_fn, fn(Term) -> Term,
    0 1 2 3 4 5 6 7 8 9 10 11 12 13 14 15 16 17 18 19 20 21 22 23 24 25 26 27 28 29 30 31
    32 33 34 35 36 37 38 39 40 41 42 43 44 45 46 47 48 49 50 51 52 53 54 55 56 57 58 59 60 61 62 63
    64 65 66 67 68 69 70 71 72 73 74 75 76 77 78 79);

#[derive(Clone, Debug, PartialEq, Eq)]
pub struct OpSpec {
    pub name: &'static str,
    /// (priority, flagged commutative)
    pub bin: Option<(i64, bool)>,
    pub unary: bool,
    pub constant: bool,
}
impl OpSpec {
    pub fn bin(name: &str, prio: i64, comm: bool) -> Self {
        OpSpec { name: intern(name), bin: Some((prio, comm)), unary: false, constant: false }
    }
    pub fn dual(name: &str, prio: i64, comm: bool) -> Self {
        OpSpec { name: intern(name), bin: Some((prio, comm)), unary: true, constant: false }
    }
    pub fn un(name: &str) -> Self {
        OpSpec { name: intern(name), bin: None, unary: true, constant: false }
    }
    pub fn constant(name: &str) -> Self {
        OpSpec { name: intern(name), bin: None, unary: false, constant: true }
    }
    pub fn describe(&self) -> String {
        if self.constant {
            format!("{}:const", self.name)
        } else {
            let mut s = self.name.to_string();
            if let Some((p, c)) = self.bin {
                s.push_str(&format!(":bin(prio={p}{})", if c { ",comm" } else { "" }));
            }
            if self.unary {
                s.push_str(":unary");
            }
            s
        }
    }
}
pub fn describe_table(t: &[OpSpec]) -> String {
    t.iter().map(|o| o.describe()).collect::<Vec<_>>().join(" ")
}

pub fn intern(s: &str) -> &'static str {
    thread_local! { static POOL: RefCell<HashMap<String, &'static str>> = RefCell::new(HashMap::new()); }
    POOL.with(|p| {
        let mut p = p.borrow_mut();
        if let Some(x) = p.get(s) {
            x
        } else {
            let l: &'static str = Box::leak(s.to_string().into_boxed_str());
            p.insert(s.to_string(), l);
            l
        }
    })
}
pub fn set_table(t: &[OpSpec]) {
    assert!(t.len() <= NOPS);
    TABLE.with(|tt| *tt.borrow_mut() = t.to_vec());
}
pub fn get_table() -> Vec<OpSpec> {
    TABLE.with(|t| t.borrow().clone())
}

#[derive(Clone, Debug, PartialEq, Eq, PartialOrd, Ord)]
pub struct DynOps;
impl MakeOperators<Term> for DynOps {
    fn make<'a>() -> Vec<Operator<'a, Term>> {
        TABLE.with(|t| {
            t.borrow()
                .iter()
                .enumerate()
                .map(|(i, s)| {
                    if s.constant {
                        Operator::make_constant(s.name, Term::Atom(CONST_BASE + i as u32))
                    } else {
                        match (s.bin, s.unary) {
                            (Some((prio, c)), true) => Operator::make_bin_unary(
                                s.name,
                                BinOp { apply: BIN_FNS[i], prio, is_commutative: c },
                                UN_FNS[i],
                            ),
                            (Some((prio, c)), false) => Operator::make_bin(
                                s.name,
                                BinOp { apply: BIN_FNS[i], prio, is_commutative: c },
                            ),
                            (None, _) => Operator::make_unary(s.name, UN_FNS[i]),
                        }
                    }
                })
                .collect()
        })
    }
}

impl Term {
    pub fn lit(s: &str) -> Term {
        Term::Lit(s.to_string())
    }
    pub fn un(o: usize, a: Term) -> Term {
        Term::Un(o as u16, Box::new(a))
    }
    pub fn bin(o: usize, a: Term, b: Term) -> Term {
        Term::Bin(o as u16, Box::new(a), Box::new(b))
    }
    /// Normal form modulo associativity+commutativity of the operators flagged commutative:
    /// nested applications of the *same* flagged operator are flattened and sorted.
    pub fn normalize(&self, comm: &dyn Fn(u16) -> bool) -> Term {
        match self {
            Term::Bin(o, _, _) if comm(*o) => {
                let mut leaves = vec![];
                self.collect_ac(*o, comm, &mut leaves);
                leaves.sort();
                let mut it = leaves.into_iter();
                let first = it.next().unwrap();
                it.fold(first, |acc, x| Term::Bin(*o, Box::new(acc), Box::new(x)))
            }
            Term::Bin(o, a, b) => {
                Term::Bin(*o, Box::new(a.normalize(comm)), Box::new(b.normalize(comm)))
            }
            Term::Un(o, a) => Term::Un(*o, Box::new(a.normalize(comm))),
            t => t.clone_quiet(),
        }
    }
    fn collect_ac(&self, op: u16, comm: &dyn Fn(u16) -> bool, out: &mut Vec<Term>) {
        match self {
            Term::Bin(o, a, b) if *o == op => {
                a.collect_ac(op, comm, out);
                b.collect_ac(op, comm, out);
            }
            t => out.push(t.normalize(comm)),
        }
    }
    /// clone that does not count
    pub fn clone_quiet(&self) -> Term {
        let prev = COUNT_CLONES.with(|c| c.replace(false));
        let r = self.clone();
        COUNT_CLONES.with(|c| c.set(prev));
        r
    }
    pub fn has_poison(&self) -> bool {
        match self {
            Term::Poison | Term::Moved => true,
            Term::Un(_, a) => a.has_poison(),
            Term::Bin(_, a, b) => a.has_poison() || b.has_poison(),
            _ => false,
        }
    }
    pub fn count_atoms(&self, out: &mut HashMap<u32, usize>) {
        match self {
            Term::Atom(i) => *out.entry(*i).or_insert(0) += 1,
            Term::Un(_, a) => a.count_atoms(out),
            Term::Bin(_, a, b) => {
                a.count_atoms(out);
                b.count_atoms(out)
            }
            _ => {}
        }
    }
    pub fn size(&self) -> usize {
        match self {
            Term::Un(_, a) => 1 + a.size(),
            Term::Bin(_, a, b) => 1 + a.size() + b.size(),
            _ => 1,
        }
    }
}

/// Normalisation w.r.t. the table currently set.
pub fn norm(t: &Term, table: &[OpSpec]) -> Term {
    let comm = |o: u16| table.get(o as usize).and_then(|s| s.bin).map(|b| b.1).unwrap_or(false);
    t.normalize(&comm)
}

// ---------------------------------------------------------------------------------------------
// a fixed operator table and literal matcher made with the crate's own macros (`ops_factory!`,
// `literal_matcher_from_pattern!`), the way the documentation tells users to define them

/// the table `MacroOps` implements, slot by slot
pub fn macro_table() -> Vec<OpSpec> {
    vec![
        OpSpec::un("sin"),
        OpSpec::constant("PI"),
        OpSpec::dual("-", 1, false),
        OpSpec::dual("+", 1, true),
        OpSpec::bin("*", 2, true),
        OpSpec::bin("/", 2, false),
        OpSpec::bin("^", 4, false),
        OpSpec::bin("max", 5, true),
        OpSpec::un("neg"),
        OpSpec::bin("<=", 0, false),
        OpSpec::bin("<", 0, false),
        OpSpec::constant("τ"),
    ]
}
exmex::ops_factory!(
    MacroOps,
    Term,
    Operator::make_unary("sin", un_fn::<0>),
    Operator::make_constant("PI", Term::Atom(CONST_BASE + 1)),
    Operator::make_bin_unary("-", BinOp { apply: bin_fn::<2>, prio: 1, is_commutative: false }, un_fn::<2>),
    Operator::make_bin_unary("+", BinOp { apply: bin_fn::<3>, prio: 1, is_commutative: true }, un_fn::<3>),
    Operator::make_bin("*", BinOp { apply: bin_fn::<4>, prio: 2, is_commutative: true }),
    Operator::make_bin("/", BinOp { apply: bin_fn::<5>, prio: 2, is_commutative: false }),
    Operator::make_bin("^", BinOp { apply: bin_fn::<6>, prio: 4, is_commutative: false }),
    Operator::make_bin("max", BinOp { apply: bin_fn::<7>, prio: 5, is_commutative: true }),
    Operator::make_unary("neg", un_fn::<8>),
    Operator::make_bin("<=", BinOp { apply: bin_fn::<9>, prio: 0, is_commutative: false }),
    Operator::make_bin("<", BinOp { apply: bin_fn::<10>, prio: 0, is_commutative: false }),
    Operator::make_constant("τ", Term::Atom(CONST_BASE + 11))
);
exmex::literal_matcher_from_pattern!(MacroMatcher, r"^([0-9]+\.?[0-9]*|\.[0-9]+)");
