//! Independent reference interpreter of the documented rules of `Val<i32, f64>` (README, docs of
//! `ValOpsFactory`, property statements C16/C17). Every cell is either a definite expectation, "must
//! be an error value", or *unspecified* (neither the documentation nor the property fixes it).
use exmex::Val;
use smallvec::SmallVec;

pub type V = Val<i32, f64>;

#[derive(Clone, Debug)]
pub enum Expect {
    Exactly(V),
    ErrorValue,
    Unspecified,
}

pub const BIN_OPS: [&str; 28] = [
    "^", "+", "-", "cross", "dot", "*", "/", "atan2", "%", "|", "&", "XOR", ">>", "<<", "&&", "||", "==", ">=", ">", "<=",
    "<", "!=", "if", "else", "min", "max", ".", "+",
];
pub const FLOAT_FUNCS: [&str; 23] = [
    "sin", "cos", "tan", "asin", "acos", "atan", "sinh", "cosh", "tanh", "asinh", "acosh", "atanh", "floor", "ceil", "trunc",
    "fract", "exp", "sqrt", "cbrt", "round", "ln", "log10", "log2",
];

fn arr(v: &[f64]) -> V {
    Val::Array(SmallVec::from_slice(v))
}
pub fn err() -> V {
    Val::Error(exmex::ExError::new("catalogue error value"))
}

pub fn catalogue() -> Vec<V> {
    let mut c: Vec<V> = vec![];
    for i in [0, 1, -1, 2, -2, 3, 5, 31, 32, 33, i32::MAX, i32::MIN, i32::MAX - 1, i32::MIN + 1, 46341, 65536] {
        c.push(Val::Int(i));
    }
    for f in [
        0.0, -0.0, 1.0, -1.0, 0.5, 2.0, 3.7, 1e10, f64::MAX, f64::MIN_POSITIVE, f64::NAN, f64::INFINITY, f64::NEG_INFINITY,
        2147483648.0, -2147483649.0, 2147483647.0,
    ] {
        c.push(Val::Float(f));
    }
    c.push(Val::Bool(true));
    c.push(Val::Bool(false));
    c.push(arr(&[]));
    c.push(arr(&[1.5]));
    c.push(arr(&[1.0, 2.0, 3.0]));
    c.push(arr(&[0.0, 1.0, 0.0]));
    c.push(arr(&[1.0, 2.0, 3.0, 4.0, 5.0]));
    c.push(Val::None);
    c.push(err());
    c
}

pub fn is_boundary(v: &V) -> bool {
    match v {
        Val::Int(i) => [0, -1, i32::MAX, i32::MIN, i32::MAX - 1, i32::MIN + 1, 31, 32, 33].contains(i),
        Val::Float(f) => !f.is_finite() || *f == 0.0 || f.abs() >= 2147483647.0 || *f == f64::MIN_POSITIVE,
        Val::Array(a) => a.is_empty(),
        Val::None | Val::Error(_) => true,
        Val::Bool(_) => false,
    }
}

pub fn kind(v: &V) -> &'static str {
    match v {
        Val::Int(_) => "int",
        Val::Float(_) => "float",
        Val::Bool(_) => "bool",
        Val::Array(_) => "array",
        Val::None => "none",
        Val::Error(_) => "error",
    }
}

fn float_close(a: f64, b: f64) -> bool {
    if a.is_nan() || b.is_nan() {
        return a.is_nan() && b.is_nan();
    }
    if a == b {
        // the sign of a zero is part of the value (1/x, atan2 and signum see it)
        return a != 0.0 || a.is_sign_negative() == b.is_sign_negative();
    }
    if a.is_infinite() || b.is_infinite() || a.is_sign_negative() != b.is_sign_negative() {
        return false;
    }
    (a.to_bits() as i128 - b.to_bits() as i128).abs() <= 2
}

/// structural equality: Error == Error regardless of message, NaN == NaN
pub fn same(a: &V, b: &V) -> bool {
    match (a, b) {
        (Val::Int(x), Val::Int(y)) => x == y,
        (Val::Float(x), Val::Float(y)) => float_close(*x, *y),
        (Val::Bool(x), Val::Bool(y)) => x == y,
        (Val::Array(x), Val::Array(y)) => x.len() == y.len() && x.iter().zip(y.iter()).all(|(p, q)| float_close(*p, *q)),
        (Val::None, Val::None) => true,
        (Val::Error(_), Val::Error(_)) => true,
        _ => false,
    }
}

pub fn satisfies(got: &V, e: &Expect) -> bool {
    match e {
        Expect::Exactly(v) => same(got, v),
        Expect::ErrorValue => matches!(got, Val::Error(_)),
        Expect::Unspecified => true,
    }
}

fn num(v: &V) -> Option<f64> {
    match v {
        Val::Int(i) => Some(*i as f64),
        Val::Float(f) => Some(*f),
        _ => None,
    }
}
fn is_err(v: &V) -> bool {
    matches!(v, Val::Error(_))
}

fn int_res(r: Option<i32>) -> Expect {
    match r {
        Some(x) => Expect::Exactly(Val::Int(x)),
        None => Expect::ErrorValue,
    }
}

pub fn ref_binary(name: &str, a: &V, b: &V) -> Expect {
    use Expect::*;
    // comparisons
    if ["==", "!=", "<", "<=", ">", ">="].contains(&name) {
        return match (a, b) {
            (Val::Int(x), Val::Int(y)) => Exactly(Val::Bool(match name {
                "==" => x == y,
                "!=" => x != y,
                "<" => x < y,
                "<=" => x <= y,
                ">" => x > y,
                _ => x >= y,
            })),
            (Val::Int(_) | Val::Float(_), Val::Int(_) | Val::Float(_)) => {
                let (x, y) = (num(a).unwrap(), num(b).unwrap());
                Exactly(Val::Bool(match name {
                    "==" => x == y,
                    "!=" => x != y,
                    "<" => x < y,
                    "<=" => x <= y,
                    ">" => x > y,
                    _ => x >= y,
                }))
            }
            (Val::Bool(x), Val::Bool(y)) => match name {
                "==" => Exactly(Val::Bool(x == y)),
                "!=" => Exactly(Val::Bool(x != y)),
                _ => Unspecified,
            },
            (Val::Array(_), Val::Array(_)) => Unspecified,
            _ => {
                if name == "!=" {
                    Unspecified
                } else {
                    Exactly(Val::Bool(false))
                }
            }
        };
    }
    match name {
        "if" => {
            return match b {
                Val::Bool(true) => Exactly(a.clone()),
                Val::Bool(false) => Exactly(Val::None),
                _ => Unspecified,
            }
        }
        "else" => {
            return match a {
                Val::None => Exactly(b.clone()),
                _ => Exactly(a.clone()),
            }
        }
        "&&" | "||" => {
            return match (a, b) {
                (Val::Bool(x), Val::Bool(y)) => Exactly(Val::Bool(if name == "&&" { *x && *y } else { *x || *y })),
                _ => Unspecified,
            }
        }
        _ => {}
    }
    // arithmetic, bitwise, power, vector operators: an error operand gives an error result
    if is_err(a) || is_err(b) {
        return ErrorValue;
    }
    match name {
        "+" | "-" | "*" | "/" | "min" | "max" => {
            let fop = |x: f64, y: f64| match name {
                "+" => x + y,
                "-" => x - y,
                "*" => x * y,
                "/" => x / y,
                "min" => x.min(y),
                _ => x.max(y),
            };
            let minmax_fragile = |x: f64, y: f64| (name == "min" || name == "max") && (x.is_nan() || y.is_nan() || (x == 0.0 && y == 0.0));
            match (a, b) {
                (Val::Int(x), Val::Int(y)) => match name {
                    "+" => int_res(x.checked_add(*y)),
                    "-" => int_res(x.checked_sub(*y)),
                    "*" => int_res(x.checked_mul(*y)),
                    "/" => int_res(x.checked_div(*y)),
                    "min" => Exactly(Val::Int(*x.min(y))),
                    _ => Exactly(Val::Int(*x.max(y))),
                },
                // a float or array divided by the *integer* zero: the library reports "int division by
                // zero"; the documentation fixes neither that nor the promoted result: not judged
                (Val::Float(_) | Val::Array(_), Val::Int(0)) if name == "/" => Unspecified,
                (Val::Int(_) | Val::Float(_), Val::Int(_) | Val::Float(_)) => {
                    let (x, y) = (num(a).unwrap(), num(b).unwrap());
                    if minmax_fragile(x, y) {
                        Unspecified
                    } else {
                        Exactly(Val::Float(fop(x, y)))
                    }
                }
                (Val::Array(x), Val::Array(y)) => {
                    if x.len() != y.len() {
                        Unspecified
                    } else if x.iter().zip(y.iter()).any(|(p, q)| minmax_fragile(*p, *q)) {
                        Unspecified
                    } else {
                        Exactly(Val::Array(x.iter().zip(y.iter()).map(|(p, q)| fop(*p, *q)).collect()))
                    }
                }
                (Val::Array(x), Val::Int(_) | Val::Float(_)) => {
                    let s = num(b).unwrap();
                    if x.iter().any(|p| minmax_fragile(*p, s)) {
                        Unspecified
                    } else {
                        Exactly(Val::Array(x.iter().map(|p| fop(*p, s)).collect()))
                    }
                }
                (Val::Int(_) | Val::Float(_), Val::Array(y)) => {
                    let s = num(a).unwrap();
                    if name == "-" || name == "/" || y.iter().any(|p| minmax_fragile(*p, s)) {
                        Unspecified
                    } else {
                        Exactly(Val::Array(y.iter().map(|p| fop(s, *p)).collect()))
                    }
                }
                _ => ErrorValue,
            }
        }
        "%" => match (a, b) {
            (Val::Int(x), Val::Int(y)) => int_res(x.checked_rem(*y)),
            _ => ErrorValue,
        },
        "|" | "&" | "XOR" => match (a, b) {
            (Val::Int(x), Val::Int(y)) => Exactly(Val::Int(match name {
                "|" => x | y,
                "&" => x & y,
                _ => x ^ y,
            })),
            _ => ErrorValue,
        },
        "<<" | ">>" => match (a, b) {
            (Val::Int(x), Val::Int(y)) => {
                if *y < 0 || *y >= 32 {
                    ErrorValue
                } else if name == "<<" {
                    Exactly(Val::Int(x.wrapping_shl(*y as u32)))
                } else {
                    Exactly(Val::Int(x.wrapping_shr(*y as u32)))
                }
            }
            _ => ErrorValue,
        },
        "^" => match (a, b) {
            (Val::Int(x), Val::Int(y)) => {
                if *y < 0 {
                    ErrorValue
                } else {
                    int_res(x.checked_pow(*y as u32))
                }
            }
            (Val::Float(x), Val::Float(y)) => Exactly(Val::Float(x.powf(*y))),
            (Val::Float(x), Val::Int(y)) => Exactly(Val::Float(x.powi(*y))),
            (Val::Int(_), Val::Float(_)) => Unspecified,
            _ => ErrorValue,
        },
        "atan2" => match (a, b) {
            (Val::Int(_) | Val::Float(_), Val::Int(_) | Val::Float(_)) => {
                Exactly(Val::Float(num(a).unwrap().atan2(num(b).unwrap())))
            }
            (Val::Bool(_), _) | (_, Val::Bool(_)) => Unspecified,
            _ => ErrorValue,
        },
        "dot" => match (a, b) {
            (Val::Array(x), Val::Array(y)) => {
                if x.len() != y.len() {
                    Unspecified
                } else {
                    Exactly(Val::Float(x.iter().zip(y.iter()).map(|(p, q)| p * q).fold(0.0, |s, t| s + t)))
                }
            }
            _ => ErrorValue,
        },
        "cross" => match (a, b) {
            (Val::Array(x), Val::Array(y)) => {
                if x.len() == 3 && y.len() == 3 {
                    Exactly(arr(&[x[1] * y[2] - x[2] * y[1], x[2] * y[0] - x[0] * y[2], x[0] * y[1] - x[1] * y[0]]))
                } else {
                    Unspecified
                }
            }
            _ => ErrorValue,
        },
        "." => match (a, b) {
            (Val::Array(x), Val::Int(i)) => {
                if *i >= 0 && (*i as usize) < x.len() {
                    Exactly(Val::Float(x[*i as usize]))
                } else {
                    Unspecified
                }
            }
            _ => ErrorValue,
        },
        _ => Unspecified,
    }
}

pub fn std_float_fn(name: &str) -> Option<fn(f64) -> f64> {
    Some(match name {
        "sin" => f64::sin,
        "cos" => f64::cos,
        "tan" => f64::tan,
        "asin" => f64::asin,
        "acos" => f64::acos,
        "atan" => f64::atan,
        "sinh" => f64::sinh,
        "cosh" => f64::cosh,
        "tanh" => f64::tanh,
        "asinh" => f64::asinh,
        "acosh" => f64::acosh,
        "atanh" => f64::atanh,
        "floor" => f64::floor,
        "ceil" => f64::ceil,
        "trunc" => f64::trunc,
        "fract" => f64::fract,
        "exp" => f64::exp,
        "sqrt" => f64::sqrt,
        "cbrt" => f64::cbrt,
        "round" => f64::round,
        "ln" | "log" => f64::ln,
        "log10" => f64::log10,
        "log2" => f64::log2,
        _ => return None,
    })
}

pub fn ref_unary(name: &str, a: &V) -> Expect {
    use Expect::*;
    if name == "+" {
        return Exactly(a.clone());
    }
    if is_err(a) {
        return ErrorValue;
    }
    if let Some(f) = std_float_fn(name) {
        return match a {
            Val::Float(x) => Exactly(Val::Float(f(*x))),
            Val::Int(_) => Unspecified,
            _ => ErrorValue,
        };
    }
    match name {
        "-" => match a {
            Val::Int(x) => int_res(x.checked_neg()),
            Val::Float(x) => Exactly(Val::Float(-x)),
            Val::Array(x) => Exactly(Val::Array(x.iter().map(|p| -p).collect())),
            _ => ErrorValue,
        },
        "abs" => match a {
            Val::Int(x) => int_res(x.checked_abs()),
            Val::Float(x) => Exactly(Val::Float(x.abs())),
            _ => ErrorValue,
        },
        "signum" => match a {
            Val::Int(x) => Exactly(Val::Int(x.signum())),
            Val::Float(x) => Exactly(Val::Float(x.signum())),
            _ => ErrorValue,
        },
        "to_int" => match a {
            Val::Int(x) => Exactly(Val::Int(*x)),
            Val::Float(x) => {
                if x.is_finite() && x.trunc() >= -2147483648.0 && x.trunc() <= 2147483647.0 {
                    Exactly(Val::Int(x.trunc() as i32))
                } else {
                    ErrorValue
                }
            }
            Val::Bool(b) => Exactly(Val::Int(*b as i32)),
            _ => ErrorValue,
        },
        "to_float" => match a {
            Val::Int(x) => Exactly(Val::Float(*x as f64)),
            Val::Float(x) => Exactly(Val::Float(*x)),
            Val::Bool(b) => Exactly(Val::Float(if *b { 1.0 } else { 0.0 })),
            _ => ErrorValue,
        },
        "fact" => match a {
            Val::Int(x) => {
                if *x < 0 {
                    ErrorValue
                } else {
                    let mut acc: Option<i32> = Some(1);
                    for k in 1..=(*x).min(20) {
                        acc = acc.and_then(|p| p.checked_mul(k));
                    }
                    if *x > 20 {
                        acc = None;
                    }
                    int_res(acc)
                }
            }
            _ => ErrorValue,
        },
        "swap_bytes" | "to_le" | "to_be" => match a {
            Val::Int(x) => Exactly(Val::Int(match name {
                "swap_bytes" => x.swap_bytes(),
                "to_le" => x.to_le(),
                _ => x.to_be(),
            })),
            _ => ErrorValue,
        },
        "length" => match a {
            Val::Array(x) => Exactly(Val::Float(x.iter().map(|p| p * p).fold(0.0, |s, t| s + t).sqrt())),
            _ => ErrorValue,
        },
        _ => Unspecified,
    }
}

/// a spelling of the value as a (foldable) literal expression of the value table
pub fn literal_text(v: &V) -> String {
    match v {
        Val::Int(i) => {
            if *i == i32::MIN {
                "(0-2147483647-1)".to_string()
            } else if *i < 0 {
                format!("(0-{})", -(*i as i64))
            } else {
                format!("{i}")
            }
        }
        Val::Float(f) => {
            if f.is_nan() {
                "(0.0/0.0)".to_string()
            } else if *f == f64::INFINITY {
                "(1.0/0.0)".to_string()
            } else if *f == f64::NEG_INFINITY {
                "(-1.0/0.0)".to_string()
            } else if *f == 0.0 && f.is_sign_negative() {
                "(-0.0)".to_string()
            } else if *f < 0.0 {
                format!("(-{})", dec(-*f))
            } else {
                dec(*f)
            }
        }
        Val::Bool(b) => format!("{b}"),
        Val::Array(a) => {
            if a.is_empty() {
                // no literal for the empty array: not expressible
                String::new()
            } else {
                format!("[{}]", a.iter().map(|x| dec(*x)).collect::<Vec<_>>().join(","))
            }
        }
        Val::None => "(1 if false)".to_string(),
        Val::Error(_) => "(1/0)".to_string(),
    }
}
/// decimal spelling digits.digits of a non-negative finite float, "" if not exactly expressible that way
fn dec(f: f64) -> String {
    if f == f64::MAX {
        // 1.7976931348623157e308 written out
        let s = format!("{:.0}", f);
        return format!("{s}.0");
    }
    if f.fract() == 0.0 && f.abs() < 1e300 {
        format!("{:.1}", f)
    } else {
        let s = format!("{f}");
        if s.contains('e') || !s.contains('.') {
            String::new()
        } else {
            s
        }
    }
}
