#!/bin/bash
# usage: run.sh <property id> [quick|thorough]
# Rebuilds the harness against /repo's current working tree (path dependency) and runs one check.
# exit 0 = property held on everything explored; 1 = VIOLATION line(s) printed; 2 = inconclusive
# (build failure, infrastructure problem).
set -u
ID="${1:?property id}"
TIER="${2:-${VERIF_TIER:-quick}}"
SEED="${VERIF_SEED:-1}"
export CARGO_NET_OFFLINE=true
cd /verif/harness || exit 2
mkdir -p /verif/.target /verif/evidence /verif/replays
LOG="/verif/.target/build-$$.log"
if ! cargo build --bin vcheck >"$LOG" 2>&1; then
  echo "run.sh: harness does not build against /repo (inconclusive)" >&2
  grep -E -A15 "^error" "$LOG" | head -60 >&2
  rm -f "$LOG"
  exit 2
fi
rm -f "$LOG"
/verif/.target/debug/vcheck "$ID" --tier "$TIER" --seed "$SEED"
rc=$?
if [ $rc -ne 0 ] && [ $rc -ne 1 ]; then
  echo "run.sh: checker ended with status $rc (inconclusive)" >&2
  exit 2
fi
exit $rc
