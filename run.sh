#!/bin/bash
# usage: run.sh <property id> [quick|thorough]
# Rebuilds the harness against /repo's current working tree (path dependency) and runs one check.
# exit 0 = property held on everything explored; 1 = VIOLATION line(s) printed; 2 = inconclusive
# (build failure, infrastructure problem).
set -u
ID="${1:?property id}"
TIER="${2:-${VERIF_TIER:-quick}}"
SEED="${VERIF_SEED:-1}"
export CARGO_NET_OFFLINE=true
cd /verif/harness || exit 2
mkdir -p /verif/.target /verif/evidence /verif/replays
LOG="/verif/.target/build-$$.log"
if ! cargo build --bin vcheck >"$LOG" 2>&1; then
  if [ "$ID" = "C20" ] && grep -qE "cannot be (sent|shared) between threads safely" "$LOG"; then
    # the harness shares expressions across threads; it does not compile if they are not Send + Sync
    mkdir -p /verif/replays /verif/evidence
    cp "$LOG" /verif/replays/C20-sendsync-compile-error.txt
    echo "VIOLATION property=C20 replay=/verif/replays/C20-sendsync-compile-error.txt"
    grep -E -m3 "cannot be (sent|shared) between threads safely" "$LOG" >&2
    python3 - "$TIER" "$SEED" <<'PY'
import json,sys
json.dump({"property_id":"C20","tier":sys.argv[1],"seed":int(sys.argv[2]),"level":"exploration",
 "coverage":{"evaluations":8,"distinct_nontrivial":8,"rule":"type-level part: Send + Sync bounds asserted for 8 expression types; the assertion does not compile","samples":["FlatEx<f64>","DeepEx<'static, f64>","FlatEx<Val<i32,f64>,..>","FlatEx<Term, DynOps, TermMatcher>"]},
 "assumptions":["only the compile-time part ran: the harness could not be built"],"wall_s":0.0,"violations":1},open('/verif/evidence/C20.json','w'),indent=1)
PY
    rm -f "$LOG"
    exit 1
  fi
  echo "run.sh: harness does not build against /repo (inconclusive)" >&2
  grep -E -A15 "^error" "$LOG" | head -60 >&2
  rm -f "$LOG"
  exit 2
fi
rm -f "$LOG"
SS_VIOLATION=0
if [ "$ID" = "C20" ]; then
  # type-level part of C20: this binary compiles iff FlatEx/DeepEx are Send + Sync
  if ! cargo build --bin sendsync >"$LOG" 2>&1; then
    if grep -qE "cannot be (sent|shared) between threads safely|the trait bound .*: (Send|Sync)" "$LOG"; then
      mkdir -p /verif/replays
      cp "$LOG" /verif/replays/C20-sendsync-compile-error.txt
      echo "VIOLATION property=C20 replay=/verif/replays/C20-sendsync-compile-error.txt"
      grep -E -m3 "cannot be (sent|shared) between threads safely" "$LOG" >&2
      SS_VIOLATION=1
    else
      echo "run.sh: sendsync does not build for another reason (inconclusive)" >&2
      grep -E -A10 "^error" "$LOG" | head -40 >&2
      rm -f "$LOG"; exit 2
    fi
  fi
  rm -f "$LOG"
fi
/verif/.target/debug/vcheck "$ID" --tier "$TIER" --seed "$SEED"
rc=$?
if [ $SS_VIOLATION -eq 1 ] && [ $rc -eq 0 ]; then
  # record the type-level violation in the evidence written by the run above
  python3 - <<'PY'
import json
p='/verif/evidence/C20.json'
try:
    e=json.load(open(p)); e['violations']=e.get('violations',0)+1
    e['coverage']['explanation']+=' | TYPE-LEVEL PART FAILED: the Send+Sync assertion binary does not compile'
    json.dump(e,open(p,'w'),indent=1)
except Exception as ex:
    print('run.sh: cannot amend evidence:',ex)
PY
  rc=1
fi
if [ $rc -ne 0 ] && [ $rc -ne 1 ]; then
  echo "run.sh: checker ended with status $rc (inconclusive)" >&2
  exit 2
fi
exit $rc
