#!/bin/bash
# usage: confirm_seed.sh <worktree> <seed dir>   -- independent confirmation of a seeded change
# prints one line: CONFIRMED / REJECTED with reasons
wt="$1"; sd="$2"
cd "$wt" || exit 2
export CARGO_NET_OFFLINE=true
git checkout -q -- src tests 2>/dev/null; rm -f tests/seed_demo.rs
if [ ! -f "$sd/patch.diff" ] || [ ! -f "$sd/demo.rs" ]; then echo "REJECTED $sd: files missing"; exit 1; fi
cp "$sd/demo.rs" tests/seed_demo.rs
if ! cargo test --all-features --offline --test seed_demo >/tmp/confirm_$$.log 2>&1; then echo "REJECTED $sd: demo fails on clean tree"; rm -f tests/seed_demo.rs; exit 1; fi
if ! git apply "$sd/patch.diff"; then echo "REJECTED $sd: patch does not apply"; rm -f tests/seed_demo.rs; exit 1; fi
if cargo test --all-features --offline --test seed_demo >/tmp/confirm_$$.log 2>&1; then echo "REJECTED $sd: demo passes with patch"; git checkout -q -- src; rm -f tests/seed_demo.rs; exit 1; fi
rm -f tests/seed_demo.rs
ok=1
cargo test --offline >/tmp/confirm_$$.log 2>&1 || { ok=0; echo "REJECTED $sd: default-feature suite fails with patch"; }
if [ $ok = 1 ]; then cargo test --all-features --offline >/tmp/confirm_$$.log 2>&1 || { ok=0; echo "REJECTED $sd: all-features suite fails with patch"; }; fi
git checkout -q -- src
rm -f /tmp/confirm_$$.log
[ $ok = 1 ] && echo "CONFIRMED $sd"
