#!/usr/bin/env python3
"""Completes seeded/<id>/<k>/meta.json with the independent confirmation and the check results."""
import json, glob, os
S='/verif/seeded'
res=json.load(open(f'{S}/RESULTS.json'))
extra=json.load(open(f'{S}/EXTRA.json')) if os.path.exists(f'{S}/EXTRA.json') else {}
conf={}
for f in ['/tmp/wt/confirm_batch1.log','/tmp/wt/confirm_batch2.log', f'{S}/CONFIRM.log', f'{S}/CONFIRM_r2.log', f'{S}/CONFIRM_r3.log', f'{S}/CONFIRM_r4.log', f'{S}/CONFIRM_r5.log', f'{S}/CONFIRM_r6.log']:
    if os.path.exists(f):
        for l in open(f):
            p=l.split()
            if len(p)>=2:
                key='/'.join(p[1].rstrip(':').split('/')[-3::2]) if '/seed/' in p[1] else '/'.join(p[1].rstrip(':').split('/')[-2:])
                conf[key]=p[0]
for d in sorted(glob.glob(f'{S}/C*/*/')):
    sid=os.path.relpath(d,S).rstrip('/')
    try: meta=json.load(open(d+'meta.json'))
    except Exception:
        try: meta=json.load(open(d+'meta.agent.json'))
        except Exception: meta={}
    meta['round']=6 if '/r6-' in sid else 5 if '/r5-' in sid else 4 if '/r4-' in sid else 3 if '/r3-' in sid else (2 if '/r2-' in sid else 1)
    meta['breaks_property']=sid.split('/')[0]
    meta['origin']='independent sub-agent that saw only the property text and its own scratch worktree of /repo'
    meta['confirmation']={'result':conf.get(sid,'?'),'how':'tools/confirm_seed.sh: demo.rs as tests/seed_demo.rs passes on the clean tree (cargo test --all-features --offline --test seed_demo), fails with patch.diff applied; with the patch and without the demo both cargo test --offline and cargo test --all-features --offline pass'}
    r=res.get(sid,{})
    meta['checks_run']={c:{'exit':v.get('rc'),'first_failure':v.get('first','')} for c,v in r.items() if isinstance(v,dict)}
    caught=[c for c,v in r.items() if isinstance(v,dict) and v.get('rc')==1]
    if extra.get(sid,{}).get('caught_by'): caught.append(extra[sid]['caught_by'])
    meta['caught_by_quick_checks']=sorted(set(caught))
    if sid in extra and 'note' in extra[sid]: meta['note']=extra[sid]['note']
    json.dump(meta,open(d+'meta.json','w'),indent=1,ensure_ascii=False)
print('done')
