#!/usr/bin/env python3
"""Regenerates /verif/MANIFEST.json from the table below (claimed checks) and properties.jsonl."""
import json
CLAIMED = {
 "C01": ("Random search (proptest, shrinking) over operator table x expression tree x rendering; decided symbolically for all variable values by evaluating over a free term algebra and comparing with the generated tree modulo AC of flagged operators. Exploration, not proof.",
         "Trusts the harness' renderer to use only the documented precedence rules; priorities 0..=99; variable names never start with an alphabetic binary operator name.",
         "property-based testing (proptest over choice tapes) with a term-algebra reference oracle", "DESIGN.md §4 C01"),
 "C02": ("Five denotations of each generated text (folded, unfolded, re-folded once/twice, deep) compared symbolically with the generated tree; long one-level chains; pure differential on token-soup strings. Exploration.",
         "Commutative flag taken as licence for AC regrouping of the same operator only; strings with prefix-style binary operators excluded (known finding F15).",
         "property-based testing: reference-model and differential oracle over a term algebra", "DESIGN.md §4 C02"),
 "C03": ("Stateful conversion histories (to_deepex/from_deepex/clone) on generated expressions checked after every step against the generated tree; operator listings against sets computed from the tree; flat/deep/conversion agreement on token-soup strings. Exploration.",
         "Priorities 0..=99; prefix-style binary operators in arbitrary strings are known finding F15 (listed inputs replayed, generator excludes and counts them).",
         "property-based testing: model-based histories + differential oracle", "DESIGN.md §4 C03"),
 "C04": ("Generated name pools (0-26 names incl. arbitrary braced text) x trees x spellings: var_names against an independently sorted set, binding decided symbolically, arity over all slice lengths for every evaluation entry point, derived expressions against the sorted union computed from the trees. Exploration.",
         "Rust string order = str::cmp; bare names never start with an alphabetic binary operator name.",
         "property-based testing with set/term reference oracle", "DESIGN.md §4 C04"),
 "C07": ("Well-formed generated expression x one token-level damage of each listed kind (generated, default float and value tables): every parser entry point must return Err; malformedness holds by construction. Exploration.",
         "Damage applied at token boundaries outside braces; illegal characters chosen outside all operator names.",
         "property-based testing: validity predicate (must be rejected) over constructed malformed inputs", "DESIGN.md §4 C07"),
 "C08": ("Trees rendered with binary operators in call form at every position (nested in first/second argument, extra parentheses, under unary operators) against the tree's reference semantics, plus metamorphic all-infix rendering; exact float/integer sub-checks over the built-in tables. Exploration.",
         "Call form generated for alphabetic and symbolic binary operators; exact arithmetic only in the float/value sub-checks.",
         "property-based testing: reference-model + metamorphic oracle", "DESIGN.md §4 C08"),
 "C13": ("Generated families over tables with prefix-related names and the default float table: extensions/truncations/concatenations of names, exact names + separators, longest match, literal spellings, arbitrary braced text, sign chains; expectations from the documented lexical rules. Exploration (near-exhaustive over name x extension pairs).",
         "Identifiers starting with an alphabetic binary operator name are carved out (documented tokeniser behaviour).",
         "property-based testing against a reference tokeniser / expected terms", "DESIGN.md §4 C13"),
 "C14": ("All application orders of chains up to 8 (quick) / 9 (thorough) operands enumerated exhaustively; chains up to 513 operands around every multiple of 64 with random and structured orders and groupings; exact comparison with an index-free list-merging model over a term algebra for 8 evaluation routes. Exhaustive for small sizes, exploration beyond.",
         "Non-commutative operators only (exact equality); priorities 0..=99.",
         "bounded-exhaustive enumeration + property-based testing against a list-merging model", "DESIGN.md §4 C14"),
 "C15": ("Generated repetition patterns (incl. variables listed but not occurring): eval_vec/eval_iter compared exactly with eval over a term algebra whose Default is a poison marker and whose Clone counts per variable. Exploration.",
         "Values passed are plain atoms, so one clone of a value is one counted clone.",
         "property-based testing: differential oracle with instrumented data type", "DESIGN.md §4 C15"),
}

CLAIMED.update({
 "C05": ("The library's first and second partial derivatives of generated expressions (flat/deep/converted/unfolded start forms) compared at interior points with forward-mode nested dual numbers on the generated tree: tolerance over f64, exact over arbitrary-precision rationals for the rational sub-language; operators without derivative rule must yield Err or the true derivative. Exploration.",
         "Points judged only inside the domain with margin 0.05 and magnitudes below 1e6; tolerance 1e-6/1e-5 over f64.",
         "property-based testing: dual-number reference oracle (f64 and exact rationals)", "DESIGN.md §4 C05"),
 "C06": ("Validity predicate 'every call returns; no panic, hang or death of the process' over all strings of <=5/6 tokens of a 14-token alphabet (exhaustive), token soup and mutated expressions up to 1000 tokens, nests up to depth 100 in child processes with the default 8 MiB stack, the saved fuzz corpus; thorough tier adds a libFuzzer campaign. Every entry point and follow-up is called. Exhaustive for short strings, exploration beyond.",
         "Texts beyond 1000 tokens / nesting 100 are outside the property; differentiation follow-ups only for nesting <= 16 and <= 40 tokens; 90 s without return = hang.",
         "bounded-exhaustive enumeration + property-based testing + coverage-guided fuzzing (libFuzzer) with a totality oracle", "DESIGN.md §4 C06"),
 "C09": ("Index histories of length 0-4 on generated differentiable expressions: every library route (sequential, partial_iter, partial_nth, relaxed variants, reversed order) keeps the antiderivative's variable list and equals the derivative of that order from triply nested dual numbers (tolerance over f64, exact over rationals); an out-of-range index at any position must give Err. Exploration.",
         "partial_nth(i, 0) with i out of range is not judged; points judged in the interior of the domain only.",
         "property-based testing: metamorphic relations + dual-number reference oracle", "DESIGN.md §4 C09"),
 "C10": ("Stateful histories: by-name and helper applications on flat and deep expressions over a term algebra (variables and symbolic value vs. reference tree after every step; unknown names must fail) and the simplifying overloaded operators on deep expressions over f64 and exact rationals vs. the unsimplified reference at well-defined assignments. Exploration.",
         "Simplifying part judged only where the unsimplified reference stays within domain margins; 0^0 may be rejected.",
         "property-based testing: model-based histories with reference-tree oracle (symbolic, f64, exact rationals)", "DESIGN.md §4 C10"),
 "C11": ("Stateful histories with substitutions (self-referential, constant, renaming, swapping, empty maps; repeated) on flat and deep expressions over a term algebra, compared after every step with simultaneous tree substitution; numeric version over the default float operators. Exploration.",
         "Reference = simultaneous substitution on the generated trees.",
         "property-based testing: model-based histories with reference-tree oracle", "DESIGN.md §4 C11"),
 "C12": ("Every expression reachable by parse + generated conversions/applications/substitutions over a term algebra is printed, parsed back by both parsers, compared (variables, symbolic value) and put through serde; parsed flat expressions must print their source exactly; derived float expressions are printed and parsed back numerically. Exploration.",
         "Tables where a binary name followed by a unary name re-tokenises differently are excluded from printing checks (known finding F11); expressions listing variables absent from their text excluded from the float part (known finding F12); exponent/inf/NaN literal forms are outside the quantifier.",
         "property-based testing: round-trip oracle (print/parse, serde) over model-based histories", "DESIGN.md §4 C12"),
 "C16": ("Every operator of the value table x every ordered pair of a 41-value catalogue of boundary operands (exhaustive) and random operands, judged by an independent reference interpreter of the documented rules (open cells counted, not judged); typed expression trees over the real table vs. left-to-right precedence semantics. Exhaustive over the catalogue, exploration beyond.",
         "Unspecified cells listed in DESIGN.md are not judged; Error == Error regardless of message; floats within 2 ulp.",
         "bounded-exhaustive enumeration + property-based testing against a reference interpreter", "DESIGN.md §4 C16"),
 "C17": ("Every operator of the value table x every ordered pair of a catalogue of special operands for four instantiations (i32/f64, i64/f32, i8/f32, i16/f64) under catch_unwind; the listed situations must yield an error value; the same cells through literals folded at parse time and through variables. Exhaustive over the catalogue, exploration beyond.",
         "Harness built with overflow checks and debug assertions; the error value itself is demanded, so silent wrapping is caught too.",
         "bounded-exhaustive enumeration + property-based testing with totality/error-value oracle", "DESIGN.md §4 C17"),
 "C18": ("Generated value-typed expressions with nested `a if c else b` terms (integer and float literals mixed; flat and deep forms) differentiated by the library and compared at points off the branch boundaries with a Val-aware forward-mode reference. Exploration.",
         "Conditions mention a variable; divisors and bases under variable exponents are float-typed by construction (known findings F13, F14 replayed); tolerance 1e-6.",
         "property-based testing: Val-aware dual-number reference oracle", "DESIGN.md §4 C18"),
 "C19": ("All 34 operators and 6 constants of FloatOpsFactory<f32|f64> against an independent table name -> Rust primitive: exhaustive over a 40-value catalogue (all ordered pairs), random arguments across bit patterns and magnitudes, and through parsed expressions (infix, call, juxtaposed). Exhaustive over the catalogue, exploration beyond.",
         "Results bit-identical or within 2 ulp with identical NaN-ness, infinities and sign of zero.",
         "bounded-exhaustive enumeration + property-based testing against an independent reference table", "DESIGN.md §4 C19"),
 "C20": ("Send/Sync decided by the compiler (a binary that only compiles if the bounds hold); generated evaluation histories compared structurally with a pristine clone after every step; results independent of what the thread handled before and of which other instantiations (integer widths of the value type, same-named literal matchers) were used before in the process, judged by a history-free oracle; generated plans run concurrently from a barrier vs. sequentially, also in fresh child processes whose first library call is the racing parse. Type-level part decided for all uses; histories explored; schedules sampled (the harness does not own the scheduler).",
         "The schedule dimension is a stress sample, not an enumeration (std::sync::Once inside lazy_static cannot be instrumented without editing a dependency).",
         "compile-time trait assertion + property-based testing (stateful histories) + sampled concurrent-vs-sequential differential", "DESIGN.md §4 C20"),
})

NOT_YET = "check not built yet (work in progress; it will be claimed once its check is committed)"
props=[json.loads(l) for l in open('/verif/properties.jsonl')]
m={
 "version":1,
 "setup_cmd":"cd /verif/harness && CARGO_NET_OFFLINE=true cargo build --bins",
 "hooks":{"guard":"exmex_verif (cfg flag reserved; no hook is needed: every check drives the public API)","enable":"none — the harness path-depends on /repo and cargo rebuilds it from the working tree on every run","baseline_off_cmd":"cd /repo && CARGO_NET_OFFLINE=true cargo test --workspace --no-fail-fast --offline","source_commits":[],"add_only":True},
 "engines":[{"name":"vcheck","path":"/verif/harness","serves_properties":sorted(CLAIMED),"kind_free_text":"proptest 1.11 driven programmatically over choice tapes (fixed seeds, shrinking, replay files) + bounded-exhaustive enumeration; oracles: free term algebra reference semantics, list-merging model, reference tokeniser, exact/differential comparisons"}],
 "checks":[],
 "notes":"One binary (vcheck) built from /verif/harness; /verif/run.sh <ID> <tier> rebuilds against /repo's working tree and runs it. Known findings: /verif/known_findings.json. See DESIGN.md.",
 "not_applicable":[]
}
for p in props:
    pid=p['id']
    if pid in CLAIMED:
        text,note,tech,ref=CLAIMED[pid]
        m["checks"].append({"property_id":pid,"quick_cmd":f"/verif/run.sh {pid} quick","thorough_cmd":f"/verif/run.sh {pid} thorough","evidence_file":f"/verif/evidence/{pid}.json","replay_cmd_template":"/verif/.target/debug/vcheck replay {path}","engine":"vcheck","level_claimed":{"category":"exploration","text":text,"design_ref":ref},"level_note":note,"technique":tech})
    else:
        m["not_applicable"].append({"property_id":pid,"reason":NOT_YET})
json.dump(m,open('/verif/MANIFEST.json','w'),indent=1,ensure_ascii=False)
print("claimed",len(m["checks"]),"not yet",len(m["not_applicable"]))
