#!/usr/bin/env python3
"""Regenerates /verif/MANIFEST.json from the table below (claimed checks) and properties.jsonl."""
import json
CLAIMED = {
 "C01": ("Random search (proptest, shrinking) over operator table x expression tree x rendering; decided symbolically for all variable values by evaluating over a free term algebra and comparing with the generated tree modulo AC of flagged operators. Exploration, not proof.",
         "Trusts the harness' renderer to use only the documented precedence rules; priorities 0..=99; variable names never start with an alphabetic binary operator name.",
         "property-based testing (proptest over choice tapes) with a term-algebra reference oracle", "DESIGN.md §4 C01"),
 "C02": ("Five denotations of each generated text (folded, unfolded, re-folded once/twice, deep) compared symbolically with the generated tree; long one-level chains; pure differential on token-soup strings. Exploration.",
         "Commutative flag taken as licence for AC regrouping of the same operator only; strings with prefix-style binary operators excluded (known finding F15).",
         "property-based testing: reference-model and differential oracle over a term algebra", "DESIGN.md §4 C02"),
 "C03": ("Stateful conversion histories (to_deepex/from_deepex/clone) on generated expressions checked after every step against the generated tree; operator listings against sets computed from the tree; flat/deep/conversion agreement on token-soup strings. Exploration.",
         "Priorities 0..=99; prefix-style binary operators in arbitrary strings are known finding F15 (listed inputs replayed, generator excludes and counts them).",
         "property-based testing: model-based histories + differential oracle", "DESIGN.md §4 C03"),
 "C04": ("Generated name pools (0-26 names incl. arbitrary braced text) x trees x spellings: var_names against an independently sorted set, binding decided symbolically, arity over all slice lengths for every evaluation entry point, derived expressions against the sorted union computed from the trees. Exploration.",
         "Rust string order = str::cmp; bare names never start with an alphabetic binary operator name.",
         "property-based testing with set/term reference oracle", "DESIGN.md §4 C04"),
 "C07": ("Well-formed generated expression x one token-level damage of each listed kind (generated, default float and value tables): every parser entry point must return Err; malformedness holds by construction. Exploration.",
         "Damage applied at token boundaries outside braces; illegal characters chosen outside all operator names.",
         "property-based testing: validity predicate (must be rejected) over constructed malformed inputs", "DESIGN.md §4 C07"),
 "C08": ("Trees rendered with binary operators in call form at every position (nested in first/second argument, extra parentheses, under unary operators) against the tree's reference semantics, plus metamorphic all-infix rendering; exact float/integer sub-checks over the built-in tables. Exploration.",
         "Call form generated for alphabetic and symbolic binary operators; exact arithmetic only in the float/value sub-checks.",
         "property-based testing: reference-model + metamorphic oracle", "DESIGN.md §4 C08"),
 "C13": ("Generated families over tables with prefix-related names and the default float table: extensions/truncations/concatenations of names, exact names + separators, longest match, literal spellings, arbitrary braced text, sign chains; expectations from the documented lexical rules. Exploration (near-exhaustive over name x extension pairs).",
         "Identifiers starting with an alphabetic binary operator name are carved out (documented tokeniser behaviour).",
         "property-based testing against a reference tokeniser / expected terms", "DESIGN.md §4 C13"),
 "C14": ("All application orders of chains up to 8 (quick) / 9 (thorough) operands enumerated exhaustively; chains up to 513 operands around every multiple of 64 with random and structured orders and groupings; exact comparison with an index-free list-merging model over a term algebra for 8 evaluation routes. Exhaustive for small sizes, exploration beyond.",
         "Non-commutative operators only (exact equality); priorities 0..=99.",
         "bounded-exhaustive enumeration + property-based testing against a list-merging model", "DESIGN.md §4 C14"),
 "C15": ("Generated repetition patterns (incl. variables listed but not occurring): eval_vec/eval_iter compared exactly with eval over a term algebra whose Default is a poison marker and whose Clone counts per variable. Exploration.",
         "Values passed are plain atoms, so one clone of a value is one counted clone.",
         "property-based testing: differential oracle with instrumented data type", "DESIGN.md §4 C15"),
}
NOT_YET = "check not built yet (work in progress; it will be claimed once its check is committed)"
props=[json.loads(l) for l in open('/verif/properties.jsonl')]
m={
 "version":1,
 "setup_cmd":"cd /verif/harness && CARGO_NET_OFFLINE=true cargo build --bins",
 "hooks":{"guard":"exmex_verif (cfg flag reserved; no hook is needed: every check drives the public API)","enable":"none — the harness path-depends on /repo and cargo rebuilds it from the working tree on every run","baseline_off_cmd":"cd /repo && CARGO_NET_OFFLINE=true cargo test --workspace --no-fail-fast --offline","source_commits":[],"add_only":True},
 "engines":[{"name":"vcheck","path":"/verif/harness","serves_properties":sorted(CLAIMED),"kind_free_text":"proptest 1.11 driven programmatically over choice tapes (fixed seeds, shrinking, replay files) + bounded-exhaustive enumeration; oracles: free term algebra reference semantics, list-merging model, reference tokeniser, exact/differential comparisons"}],
 "checks":[],
 "notes":"One binary (vcheck) built from /verif/harness; /verif/run.sh <ID> <tier> rebuilds against /repo's working tree and runs it. Known findings: /verif/known_findings.json. See DESIGN.md.",
 "not_applicable":[]
}
for p in props:
    pid=p['id']
    if pid in CLAIMED:
        text,note,tech,ref=CLAIMED[pid]
        m["checks"].append({"property_id":pid,"quick_cmd":f"/verif/run.sh {pid} quick","thorough_cmd":f"/verif/run.sh {pid} thorough","evidence_file":f"/verif/evidence/{pid}.json","replay_cmd_template":"/verif/.target/debug/vcheck replay {path}","engine":"vcheck","level_claimed":{"category":"exploration","text":text,"design_ref":ref},"level_note":note,"technique":tech})
    else:
        m["not_applicable"].append({"property_id":pid,"reason":NOT_YET})
json.dump(m,open('/verif/MANIFEST.json','w'),indent=1,ensure_ascii=False)
print("claimed",len(m["checks"]),"not yet",len(m["not_applicable"]))
