#!/usr/bin/env python3
"""Seeds for the fuzz corpora: every string literal of the repository's tests, benches, README and docs
that looks like an expression, one file per string (named by hash)."""
import re, hashlib, os, glob
out='/verif/corpus/totality'
os.makedirs(out,exist_ok=True)
srcs=glob.glob('/repo/tests/*.rs')+glob.glob('/repo/benches/*.rs')+['/repo/README.md']+glob.glob('/repo/src/*.rs')+glob.glob('/repo/src/expression/*.rs')
seen=set()
for f in srcs:
    txt=open(f,encoding='utf-8').read()
    for m in re.finditer(r'"((?:[^"\\\n]|\\.){1,300})"',txt):
        s=m.group(1)
        try:
            s=bytes(s,'utf-8').decode('unicode_escape').encode('latin-1','ignore').decode('utf-8','ignore') if '\\' in s else s
        except Exception:
            pass
        if not re.search(r'[0-9a-zA-Z]',s): continue
        if len(s.split())>12 and not re.search(r'[+*/^()-]',s): continue   # prose
        if s in seen: continue
        seen.add(s)
        open(os.path.join(out,hashlib.sha1(s.encode()).hexdigest()[:16]),'w',encoding='utf-8').write(s)
print(len(seen),'seeds')
