#!/usr/bin/env python3
"""Creates the sensitivity mutants: small realistic edits of /repo (in a scratch clone), keeps those that
still compile and pass the existing test-suite (default and all features), saves them as
/verif/mutants/<name>.patch with the property expected to catch them (mutants/INDEX.json)."""
import json, os, subprocess, sys
W='/tmp/wt/mut'
def sh(c, **kw): return subprocess.run(c, shell=True, capture_output=True, text=True, **kw)
MUT=[
 # name, property, file, old, new
 ("flat_unary_attach_first_lowest","C01","src/expression/flat.rs",".min_by(|fo1, fo2| fo1.bin_op.op.prio.cmp(&fo2.bin_op.op.prio));",".max_by(|fo1, fo2| fo2.bin_op.op.prio.cmp(&fo1.bin_op.op.prio));"),
 ("flat_bump_crosses_priority","C01","src/expression/flat.rs","                    let prio_inc = 5;\n                    &ops[bin_op_idx].bin_op.op.prio * 10 + prio_inc","                    let prio_inc = 15;\n                    &ops[bin_op_idx].bin_op.op.prio * 10 + prio_inc"),
 ("depth_prio_step_50","C01","src/expression/flat.rs","const DEPTH_PRIO_STEP: i64 = 1000;","const DEPTH_PRIO_STEP: i64 = 50;"),
 ("deep_bump_crosses_priority","C02","src/expression/deep.rs","                let prio_inc = 5;\n                &bin_ops[bin_op_node_idx].op.prio * 10 + prio_inc","                let prio_inc = 12;\n                &bin_ops[bin_op_node_idx].op.prio * 10 + prio_inc"),
 ("flat_compile_no_decline_right","C02","src/expression/flat.rs","            } else {\n                already_declined[num_idx] = true;\n                already_declined[num_idx + 1] = true;\n            }\n        }\n\n        self.flat_ops = self","            } else {\n                already_declined[num_idx] = true;\n            }\n        }\n\n        self.flat_ops = self"),
 ("flatten_offset_10","C03","src/expression/flat.rs","flatten_vecs(e, prio_offset + 100i64)","flatten_vecs(e, prio_offset + 10i64)"),
 ("flat_binary_reprs_no_dedup","C03","src/expression/flat.rs","        let mut reprs = detail::binary_reprs(&operators, &self.flat_ops);\n        reprs.sort_unstable();\n        reprs.dedup();","        let mut reprs = detail::binary_reprs(&operators, &self.flat_ops);\n        reprs.sort_unstable();"),
 ("deep_operator_reprs_no_sort","C03","src/expression/deep.rs","        reprs.extend(self.unary_reprs());\n        reprs.sort_unstable();\n        reprs.dedup();","        reprs.extend(self.unary_reprs());\n        reprs.dedup();"),
 ("union_names_not_sorted","C04","src/expression/deep.rs","        all_var_names.sort_unstable();\n        let mut self_vars_updated = self;","        let mut self_vars_updated = self;"),
 ("flat_eval_accepts_surplus","C04","src/expression/flat.rs","    fn eval(&self, vars: &[T]) -> ExResult<T> {\n        if self.var_names.len() != vars.len() {","    fn eval(&self, vars: &[T]) -> ExResult<T> {\n        if self.var_names.len() > vars.len() {"),
 ("find_parsed_vars_no_sort","C04","src/parser.rs","    found_vars.sort_unstable();\n    found_vars\n","    found_vars\n"),
 ("quotient_rule_sign","C05","src/expression/partial.rs","let numerator = ((f.der * g.val.clone())? - (g.der * f.val)?)?;","let numerator = ((g.der * f.val)? - (f.der * g.val.clone())?)?;"),
 ("tanh_rule_plus","C05","src/expression/partial.rs","one - f.without_latest_unary().tanh()?.pow(two)?","one + f.without_latest_unary().tanh()?.pow(two)?"),
 ("acosh_rule_minus_minus","C05","src/expression/partial.rs","* (f.without_latest_unary() + one)?.sqrt()?)?","* (f.without_latest_unary() - one)?.sqrt()?)?"),
 ("log10_rule_base2","C05","src/expression/partial.rs","Base::Ten => (x * ln_base(10.0)?)?,","Base::Ten => (x * ln_base(2.0)?)?,"),
 ("missing_paren_check","C07","src/parser.rs","    if open_paren_cnt != 0 {\n        Err(ExError::new(\"parentheses mismatch\"))","    if open_paren_cnt > 0 {\n        Err(ExError::new(\"parentheses mismatch\"))"),
 ("count_check_weakened","C07","src/expression/flat.rs","        if n_ops + 1 != n_nodes {","        if n_ops + 1 > n_nodes {"),
 ("comma_pending_depth_off","C08","src/parser.rs","                depths_of_pending_calls.push(paren_depth - 1);","                depths_of_pending_calls.push(paren_depth.min(1) - 1);"),
 ("partial_index_off_by_one","C09","src/expression/partial.rs","    if var_idx >= n_vars {","    if var_idx > n_vars {"),
 ("partial_nth_one_less","C09","src/expression/partial.rs","self.partial_iter(iter::repeat(var_idx).take(n))","self.partial_iter(iter::repeat(var_idx).take(n.max(1)))"),
 ("mul_shortcut_one_returns_one","C10","src/expression/deep.rs","        } else if factor2.is_one() {\n            Ok(factor1)","        } else if factor2.is_one() {\n            Ok(factor2)"),
 ("div_shortcut_zero_denominator","C10","src/expression/deep.rs","        Ok(if numerator.is_zero() && !denominator.is_zero() {","        Ok(if numerator.is_zero() || denominator.is_zero() {"),
 ("pow_exponent_one_returns_exponent","C10","src/expression/deep.rs","        } else if exponent.is_one() {\n            base","        } else if exponent.is_one() {\n            exponent"),
 ("subs_no_reset_vars","C11","src/expression/deep.rs","        all_vars.sort_unstable();\n        self.reset_vars(all_vars);\n        self.compile();\n        self","        all_vars.sort_unstable();\n        self.var_names = all_vars;\n        self.compile();\n        self"),
 ("unparse_unary_one_paren_less","C12","src/expression/deep.rs","                .take(unary_op.op.len())","                .take(unary_op.op.len().min(2))"),
 ("lookahead_removed","C13","src/parser.rs","                    && (op.has_bin()\n                        || range_end >= text.len()","                    && (op.has_bin()\n                        || op.has_unary()\n                        || range_end >= text.len()"),
 ("sign_after_open_paren_binary","C13","src/parser.rs","            Some(ParsedToken::Paren(p)) => *p == Paren::Close,\n            Some(ParsedToken::Op(_)) => false,","            Some(ParsedToken::Paren(_)) => true,\n            Some(ParsedToken::Op(_)) => false,"),
 ("numeric_two_dots","C13","src/parser.rs","    if (n_num_chars > 1 && n_dots < 2) || (n_num_chars == 1 && n_dots == 0) {","    if (n_num_chars > 1 && n_dots < 3) || (n_num_chars == 1 && n_dots == 0) {"),
 ("tracker_get_next_carry_63","C14","src/expression/number_tracker.rs","                if word == usize::MAX {\n                    ones += 64;\n                } else {\n                    ones += word.trailing_ones() as usize;","                if word == usize::MAX {\n                    ones += 63;\n                } else {\n                    ones += word.trailing_ones() as usize;"),
 ("flat_tracker_threshold","C14","src/expression/flat.rs","        Ok(if numbers.len() <= usize::max_len(&0) {","        Ok(if numbers.len() <= usize::max_len(&0) + 2 {"),
 ("val_min_max_swapped","C16","src/value.rs","base_arith!(min, min, |x: &I| *x, |x| Some(x));\nbase_arith!(max, max, |x: &I| *x, |x| Some(x));","base_arith!(min, max, |x: &I| *x, |x| Some(x));\nbase_arith!(max, min, |x: &I| *x, |x| Some(x));"),
 ("val_mul_wrapping","C16","src/value.rs","base_arith!(mul, checked_mul, |x| x, |x| x);","base_arith!(mul, mul, |x: &I| *x, |x| Some(x));"),
 ("val_shift_limit","C17","src/value.rs","        Some(bu) if b.to_usize().unwrap() < (a.count_ones() + a.count_zeros()) as usize => {\n            Val::Int(a << bu)","        Some(bu) if b.to_usize().unwrap() <= (a.count_ones() + a.count_zeros()) as usize => {\n            Val::Int(a << bu)"),
 ("val_else_takes_second","C16","src/value.rs","                        Val::None => v,\n                        _ => res_of_if,","                        Val::None | Val::Bool(false) => v,\n                        _ => res_of_if,"),
 ("val_ge_is_gt","C16","src/value.rs","apply: |a, b| Val::Bool(a >= b),","apply: |a, b| Val::Bool(a > b),"),
 ("if_rule_uses_derisval","C18","src/expression/partial.rs","        make_partial_per_operand!(\"if\"),","        make_partial_derisval!(\"if\"),"),
 ("float_log_is_log10","C19","src/operators.rs","            Operator::make_unary(\"log\", |a| a.ln()),","            Operator::make_unary(\"log\", |a| a.log10()),"),
 ("float_trunc_is_floor","C19","src/operators.rs","            Operator::make_unary(\"trunc\", |a| a.trunc()),","            Operator::make_unary(\"trunc\", |a| a.floor()),"),
 ("float_tau_is_pi","C19","src/operators.rs","            Operator::make_constant(\"τ\", T::from(std::f64::consts::TAU).unwrap()),","            Operator::make_constant(\"τ\", T::from(std::f64::consts::PI).unwrap()),"),
]
def main():
    only=sys.argv[1:]
    if not os.path.isdir(W):
        sh(f'mkdir -p /tmp/wt && git clone -q /repo {W} && cp /repo/Cargo.lock {W}/')
    head=sh('git -C /repo rev-parse HEAD').stdout.strip()
    sh(f'git -C {W} fetch -q /repo {head}; git -C {W} checkout -q --detach {head}; git -C {W} checkout -q -- .')
    os.makedirs('/verif/mutants',exist_ok=True)
    idxf='/verif/mutants/INDEX.json'
    index=json.load(open(idxf)) if os.path.exists(idxf) else {}
    env=dict(os.environ,CARGO_NET_OFFLINE='true')
    for name,prop,file,old,new in MUT:
        if only and name not in only: continue
        p=f'{W}/{file}'
        s=open(p).read()
        if s.count(old)!=1:
            print(name,'SKIP: pattern count',s.count(old)); index[name]={'property':prop,'status':'pattern-not-unique'}; continue
        open(p,'w').write(s.replace(old,new))
        b=sh('cargo build --all-features --offline',cwd=W,env=env)
        status='kept'
        if b.returncode!=0: status='does-not-compile'
        else:
            t1=sh('cargo test --offline',cwd=W,env=env)
            t2=sh('cargo test --all-features --offline',cwd=W,env=env) if t1.returncode==0 else t1
            if t1.returncode!=0 or t2.returncode!=0: status='caught-by-existing-tests'
        if status=='kept':
            d=sh('git diff',cwd=W).stdout
            open(f'/verif/mutants/{name}.patch','w').write(d)
        index[name]={'property':prop,'status':status,'file':file}
        print(name,prop,status,flush=True)
        sh('git checkout -q -- .',cwd=W)
        json.dump(index,open(idxf,'w'),indent=1,sort_keys=True)
main()
