#!/usr/bin/env python3
"""Generates DESIGN.md section 7 from seeded/RESULTS.json, mutants/RESULTS.json and the seeds' meta.json."""
import json, os, glob, re
S='/verif/seeded'; M='/verif/mutants'
res=json.load(open(f'{S}/RESULTS.json')) if os.path.exists(f'{S}/RESULTS.json') else {}
mres=json.load(open(f'{M}/RESULTS.json')) if os.path.exists(f'{M}/RESULTS.json') else {}
midx=json.load(open(f'{M}/INDEX.json')) if os.path.exists(f'{M}/INDEX.json') else {}
EXTRA=json.load(open(f'{S}/EXTRA.json')) if os.path.exists(f'{S}/EXTRA.json') else {}
def esc(s): return s.replace('|','\\|').replace('\n',' ')
def short(s,n=150):
    s=esc(s.strip()); return s if len(s)<=n else s[:n-1]+'…'
out=[]
out.append('''Two sources of deliberately broken trees, none of them ever committed to `/repo`:

**(a) Independent seeded changes** (`/verif/seeded/<property>/<k>/`, later rounds `r2-<k>` ... `r6-<k>`): for
every property a fresh sub-agent got *only* the text of the property and its own scratch worktree of
`/repo` (nothing from `/verif`), and was asked for up to three realistic changes that break the
property, still compile and keep the complete existing test-suite green (default and all features, doc
tests), each needing something specific to manifest, with a demonstration test. This was done six
times: round 1 at the start (60 changes), rounds 2 (59), 3 (59), 4 (57), a short round 5 (11 changes
for eight properties) and a short round 6 (19 changes for the other twelve properties, 25 minutes per
agent) on the repaired tree 93f4f67.
Round 2 asked for mechanisms other than the obvious single-site edit (stale caches, size thresholds,
multi-step sequences, pairs of edits that are harmless alone); round 3 for changes in shared helper
code, value- and spelling-specific behaviour, error paths and boundaries, and sequences of three or
more calls, and named six mechanisms of the earlier rounds not to be delivered again; round 4 for the
interplay of features (unfolded parsing x folding x conversions x operator application x substitution x
differentiation x serde x printing), other instantiations than `FlatEx<f64>`, rarely used entry points,
corner values reaching an operator only through an expression, and bookkeeping skipped on shortcut and
error paths (twelve earlier mechanisms excluded; eighteen in round 5); round 6 for two cooperating sites,
multi-step histories, size thresholds other than 16/32/64, rarely used operators of the built-in tables
that are wrong only for a narrow class of arguments, and the narrow instantiations (f32, Val<i8..>,
custom tables with unusual priorities). All 265 delivered
changes were confirmed independently (`tools/confirm_seed.sh`: demo passes on the clean tree, fails
with the patch; both suites pass with the patch; logs in `seeded/CONFIRM*.log`). Two parser patches
(C08/1, C08/2) were rebased onto the later F16 repair and re-confirmed. The quick check of the seeded
property was then run against each change in a scratch copy (`tools/seed_matrix.py`; exit 1 +
`VIOLATION` = caught); changes missed by their own property's check were additionally run against all
twenty checks, the checks were extended (list below the table), and finally the whole matrix (rounds
1-4) was run again with the final checks; round 5 found nothing to extend (10 of 11 caught at once, the
eleventh is a licensed regrouping); round 6 was run against the checks as they were plus the two
extensions made while the agents worked (unary towers, cross-instantiation histories; see the list
below the table). Detection does not hinge on the seed of the generators: the 75
changes seeded for the numerically decided properties (C01, C05, C09, C10, C12, C18) were also run under
`VERIF_SEED=2`, with the same verdict for every one of them.
''')
rows=[]; caught=0; total=0; missed=[]
for d in sorted(glob.glob(f'{S}/C*/*/')):
    sid=os.path.relpath(d,S).rstrip('/')
    pid=sid.split('/')[0]
    try: meta=json.load(open(d+'meta.json'))
    except Exception: meta={}
    r=res.get(sid,{})
    own=r.get(pid,{})
    total+=1
    ok=own.get('rc')==1
    others=[c for c,v in r.items() if c!=pid and isinstance(v,dict) and v.get('rc')==1]
    ex=EXTRA.get(sid,{})
    if ok: caught+=1; verdict='caught'
    elif ex.get('caught_by'): caught+=1; verdict='caught by '+ex['caught_by']
    else: verdict='**missed**'; missed.append(sid)
    first=own.get('first','')
    m=re.match(r'\[(\w+)\]\s+([^:]+):',first)
    how=f'`{m.group(1)}`: {m.group(2)}' if m else short(first,80)
    if not ok and ex.get('how'): how=ex['how']
    rows.append(f"| {sid} | {short(meta.get('summary',''),170)} | {short(meta.get('needs',''),170)} | {verdict} | {esc(how)}{(' (also '+', '.join(others)+')') if others else ''} |")
out.append(f'Result: **{caught} of {total}** seeded changes are caught by the quick tier.\n')
out.append('| seed | change | needs | verdict | first failing sub-check: signature |\n|---|---|---|---|---|')
out+=rows
if missed:
    out.append('\nMissed, and why:\n')
    for sid in missed:
        out.append(f"* {sid}: {EXTRA.get(sid,{}).get('why','(see text above)')}")
notes=EXTRA.get('_notes',[])
if notes:
    out.append('\nChecks strengthened because a seeded change slipped through at first:\n')
    out+= [f'* {n}' for n in notes]
out.append('''
**(b) Own mutants** (`/verif/mutants/*.patch`, `tools/make_mutants.py`): 39 single-site edits in the style
of the design's list (wrong constant, flipped comparison, dropped bookkeeping update, swapped
arguments, ...). The existing test-suite kills 28 of them; the 11 survivors, four hand-made ones and four patches that
revert the `fix:` commits are run against the check of the property they target. The third hand-made one
(`unary_tower_truncated`, round 6: `UnaryOp::apply` applies only the 16 innermost operators of a
composition, the inline capacity of a node; both existing suites pass) is caught by the new tower
sub-checks of C01 and C03 and by none of the 1.5 M / 0.9 M cases of their older sub-checks. The fourth
(`unary_append_capped`: merged compositions keep at most 16 operators; also survives both suites) is
likewise caught only by the tower sub-checks (C01, C03, C10, C12 were run against it).
''')
out.append('| mutant | property | file | caught | first failing sub-check: signature |\n|---|---|---|---|---|')
for name,info in sorted(midx.items()):
    if not os.path.exists(f'{M}/{name}.patch'): continue
    pid=info['property']; r=mres.get(name,{}).get(pid,{})
    first=r.get('first',''); m=re.match(r'\[(\w+)\]\s+([^:]+):',first)
    how=f'`{m.group(1)}`: {m.group(2)}' if m else short(first,80)
    verdict='yes' if r.get('rc')==1 else ('no - '+info['note'] if info.get('note') else ('**no**' if r else 'not run'))
    out.append(f"| {name} | {pid} | {info.get('file','')} | {verdict} | {esc(how)} |")
killed=[n for n,i in midx.items() if i.get('status')=='caught-by-existing-tests']
out.append(f"\nKilled by the existing test-suite already (not interesting for the checks): {', '.join(sorted(killed))}.")
out.append('''
Earlier repairs re-broken on purpose (patches that revert the `fix:` commits): reverting the flat
rules (F1, F2) is caught by C01 and C02 within a few hundred cases, the parser repair (F4) by C08,
the value repairs (F5-F10) by C06, C16 and C17; the tracker carry mutant (`ones += 64` -> `63`) by C14
(`long_chains`, chains of 130 operands).

Conversely every check was run on the unchanged tree under several `VERIF_SEED`s from fresh
processes (and at 3-20x the quick case counts) and stayed silent; the fixed-work quick tier of all
twenty properties is also exercised by `vp check` on a fresh copy of the sandbox.''')
txt='\n'.join(out)
d=open('/verif/DESIGN.md').read()
if '@@SECTION7@@' in d:
    d=d.replace('@@SECTION7@@','<!-- SECTION7 BEGIN (generated by tools/section7.py) -->\n'+txt+'\n<!-- SECTION7 END -->')
else:
    d=re.sub(r'<!-- SECTION7 BEGIN.*?<!-- SECTION7 END -->','<!-- SECTION7 BEGIN (generated by tools/section7.py) -->\n'+txt.replace('\\','\\\\')+'\n<!-- SECTION7 END -->',d,flags=re.S)
open('/verif/DESIGN.md','w').write(d)
print('caught',caught,'of',total,'missed',missed)
