#!/usr/bin/env python3
"""Runs seeded changes against the quick checks in a scratch copy (never touches /repo or /verif outputs).
usage: seed_matrix.py [--all-checks] [seed ids like C01/1 ...]
Writes /verif/seeded/RESULTS.json (merged) : {"C01/1": {"C01": {"rc":1,"first":"..."}, ...}}"""
import json, os, subprocess, sys, shutil, glob, re
SM=os.environ.get('SEED_SM','/tmp/wt/sm')
REPO=f'{SM}/repo'; HAR=f'{SM}/harness'; OUT=f'{SM}/out'
def sh(cmd, **kw):
    return subprocess.run(cmd, shell=True, capture_output=True, text=True, **kw)
def setup():
    os.makedirs(SM, exist_ok=True)
    if not os.path.isdir(REPO):
        sh(f'git clone -q /repo {REPO} && cp /repo/Cargo.lock {REPO}/')
    sh(f'git -C {REPO} fetch -q origin && git -C {REPO} checkout -q --detach origin/main 2>/dev/null || git -C {REPO} pull -q')
    head=sh('git -C /repo rev-parse HEAD').stdout.strip()
    sh(f'git -C {REPO} fetch -q /repo {head} ; git -C {REPO} checkout -q --detach {head}')
    sh(f'rm -rf {HAR} && mkdir -p {HAR} && cp -r /verif/harness/src /verif/harness/Cargo.toml /verif/harness/Cargo.lock {HAR}/ && mkdir -p {HAR}/.cargo')
    t=open(f'{HAR}/Cargo.toml').read().replace('path = "/repo"', f'path = "{REPO}"')
    open(f'{HAR}/Cargo.toml','w').write(t)
    open(f'{HAR}/.cargo/config.toml','w').write(f'[net]\noffline = true\n[build]\ntarget-dir = "{SM}/target"\n')
    os.makedirs(f'{OUT}/.target', exist_ok=True)
def run_check(pid):
    env=dict(os.environ, VERIF_OUT=OUT, CARGO_NET_OFFLINE='true')
    b=sh('cargo build --bin vcheck' + (' --bin sendsync' if pid=='C20' else ''), cwd=HAR, env=env)
    if b.returncode!=0:
        if pid=='C20' and re.search(r'cannot be (sent|shared) between threads safely', b.stderr):
            return {'rc':1,'first':'compile-time: Send/Sync assertion does not compile'}
        return {'rc':2,'first':'harness does not build: '+(re.findall(r'error[^\n]*', b.stderr) or ['?'])[0][:200]}
    r=sh(f'{SM}/target/debug/vcheck {pid} --tier quick --seed '+os.environ.get('SEED_VERIF_SEED','1'), env=env)
    lines=(r.stdout+r.stderr).splitlines()
    first=''
    for l in lines:
        if l.startswith('  [') or l.startswith('error[E'):
            first=l.strip()[:300]; break
    return {'rc':r.returncode,'first':first,'violation_lines':sum(1 for l in lines if l.startswith('VIOLATION'))}
def main():
    args=[a for a in sys.argv[1:] if not a.startswith('--')]
    allc='--all-checks' in sys.argv
    setup()
    mut='--mutants' in sys.argv
    if mut:
        index=json.load(open('/verif/mutants/INDEX.json'))
        seeds=args or sorted(k for k,v in index.items() if v.get('status')=='kept' or os.path.exists(f'/verif/mutants/{k}.patch') and 'property' in v)
        resf='/verif/mutants/RESULTS.json'
    else:
        seeds=args or sorted(os.path.relpath(os.path.dirname(p),'/verif/seeded') for p in glob.glob('/verif/seeded/C*/*/patch.diff'))
        resf=os.environ.get('SEED_RES','/verif/seeded/RESULTS.json')
    res=json.load(open(resf)) if os.path.exists(resf) else {}
    for s in seeds:
        pid=index[s]['property'] if mut else s.split('/')[0]
        patch=f'/verif/mutants/{s}.patch' if mut else f'/verif/seeded/{s}/patch.diff'
        ap=sh(f'git -C {REPO} apply {patch}')
        if ap.returncode!=0:
            res[s]={'error':'patch does not apply: '+ap.stderr[:200]}; continue
        checks=[f'C{i:02d}' for i in range(1,21)] if allc else [pid]
        r=res.get(s,{})
        for c in checks:
            r[c]=run_check(c)
            print(s,c,r[c]['rc'],r[c]['first'][:120],flush=True)
        res[s]=r
        sh(f'git -C {REPO} checkout -q -- .')
        json.dump(res,open(resf,'w'),indent=1,sort_keys=True)
main()
