#!/bin/bash
# usage: silence.sh <tier> <seed>...   -- runs every check on the current tree with outputs in a scratch dir;
# prints one line per (property, seed): exit code and number of VIOLATION lines. For the "stays silent on the
# unchanged tree" evidence (DESIGN.md section 7).
TIER="$1"; shift
OUT=/root/verif-scratch/silence; mkdir -p $OUT/.target
cd /verif/harness && CARGO_NET_OFFLINE=true cargo build --bins >/dev/null 2>&1 || { echo "build failed"; exit 2; }
for seed in "$@"; do
  for i in 01 02 03 04 05 06 07 08 09 10 11 12 13 14 15 16 17 18 19 20; do
    s=$(date +%s)
    out=$(VERIF_OUT=$OUT /verif/.target/debug/vcheck C$i --tier $TIER --seed $seed 2>&1); rc=$?
    e=$(date +%s)
    echo "C$i tier=$TIER seed=$seed rc=$rc violations=$(echo "$out" | grep -c '^VIOLATION') known=$(echo "$out" | grep -c '^KNOWN-FINDING') wall=$((e-s))s $(echo "$out" | grep -m1 -A1 '^VIOLATION' | tail -1 | cut -c1-200)"
  done
done
