#!/bin/bash
# usage: try_seed.sh <patch.diff> <prop id> [<prop id>...]   -- applies patch to /repo, runs quick checks, restores
patch="$1"; shift
if ! git -C /repo diff --quiet; then echo "/repo dirty"; exit 3; fi
git -C /repo apply "$patch" || { echo "patch does not apply"; exit 3; }
trap 'git -C /repo checkout -- . ; (cd /verif/harness && CARGO_NET_OFFLINE=true cargo build --bin vcheck >/dev/null 2>&1)' EXIT
for p in "$@"; do
  out=$(/verif/run.sh $p ${TIER:-quick} 2>&1); rc=$?
  echo "== $p rc=$rc $(echo "$out" | grep -c '^VIOLATION') violation lines; $(echo "$out" | grep -m1 -A1 '^VIOLATION' | tail -1 | cut -c1-220)"
done
