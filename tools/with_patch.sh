#!/bin/bash
# usage: with_patch.sh <patch.diff> <command...>
# Applies the patch to /repo, runs the command, and always restores /repo afterwards.
set -u
patch="$1"; shift
if ! git -C /repo diff --quiet; then echo "with_patch: /repo is dirty, refusing" >&2; exit 3; fi
if ! git -C /repo apply "$patch"; then echo "with_patch: patch does not apply" >&2; exit 3; fi
trap 'git -C /repo checkout -- . ; (cd /verif/harness && CARGO_NET_OFFLINE=true cargo build --bin vcheck >/dev/null 2>&1)' EXIT
"$@"
rc=$?
exit $rc
